"""C07 - additive-noise channels deliver exactly the configured noise power / SNR; one definition of SNR everywhere.

RNG contract (assumed, DESIGN 4.2): torch.randn* return fresh independent symbols g_j with E g = 0, E g^2 = 1 (complex draws:
1/2 per component); torch.rand* fresh independent uniform [0,1) symbols.  The draws are universally quantified inputs.

Noise algebra (the moment lemma L-moment is the only step outside the solver).  For a channel run  y = F(x; g):
   zero_draw      F(x; 0) == base            base = x (AWGN/Laplacian), f(x) (nonlinear), h.x (fading)      -> E[y - base] = 0
   affine         F(x; g) - F(x; 0) == sum_j C[:, j] * g_j    with  C[:, j] := F(x; e_j) - F(x; 0)   (evaluation of the REAL code at
                  the unit vectors of the draw space: the coefficients are, by construction, free of RNG symbols)
   own_symbols    C[i, j] == 0 unless symbol j sits at the position of output element i            -> elements are independent
   power          sum_j |C[i, j]|^2 Var(g_j) == configured noise power   (per element; complex: real + imaginary parts)
   snr            mean|base|^2 == 10^(snr/10) * sum_j |C[i, j]|^2 Var(g_j)       (relative 1e-6; 10^(snr/10) is the float64 value)
Evaluation at another RNG point = re-execution of the real function with the RNG stub returning prescribed values (both modes).

Tolerances: equalities are |a - b| <= 1e-6 * scale + 1e-12 where scale contains the magnitudes that enter the float computation
(|x_i| enters because `result - x` cancels in float32 when a witness is replayed natively).
"""
from __future__ import annotations

import math
from fractions import Fraction

import numpy as np
import torch
import z3

from vk import ops_chan as OC
from vk import spec as SP
from vk import sym as S
from vk.harness import ObResult, obligation
from vk.mode import NativeRNGMode, SymMode
from vk.tensor import PC, SymTensor, oarr

from .codes import Cfg

OC.ENABLE_SQRT_MEMO[0] = True

FA = "kaira/channels/analog.py"
FU = "kaira/utils/snr.py"
RT = Fraction(1, 10**6)
AT = Fraction(1, 10**12)

SHAPES = {"n1": (1,), "n2": (2,), "n3": (3,), "n4": (4,), "2x2": (2, 2), "1x3": (1, 3), "2x1x2": (2, 1, 2)}
SNR_GRID_Q = (-20.0, 0.0, 3.0, 10.0, 40.0)
SNR_GRID_T = (-20.0, -10.0, -3.0, 0.0, 1.5, 3.0, 6.0, 10.0, 15.0, 20.0, 30.0, 40.0)
P_GRID_Q = (1e-3, 1.0, 1e3)
P_GRID_T = (1e-3, 1e-2, 0.1, 0.5, 1.0, 2.0, 10.0, 1e2, 1e3)


# ================================================================================================ helpers
def near(a, b, scale):
    """|a - b| <= RT * scale + AT"""
    if a is b:
        return True
    d = S.sub(a, b)
    if not isinstance(d, S.Sym):
        return S.le(abs(d), S.add(S.mul(RT, scale), AT)) if isinstance(scale, S.Sym) else abs(d) <= RT * scale + AT
    d = unsqrt(d) if S.explorer() is not None else d
    if not isinstance(d, S.Sym):
        return near(d, 0, scale)
    return S.le(S.sabs(d), S.add(S.mul(RT, scale), AT))


def zsimp(v):
    """polynomial normal form of a real term (z3 simplifier, sum of monomials); a term that normalises to a number becomes that number.
    Only the syntactic shape changes: the result is equal to v for every assignment."""
    if not isinstance(v, S.Sym) or v.sort != "real" or v.rad is not None:
        return v
    e = z3.simplify(v.e, som=True)
    if z3.is_rational_value(e):
        return S.norm(Fraction(e.numerator_as_long(), e.denominator_as_long()))
    return S.Sym(e)


def all_near(a, b, scale):
    a, b = np.asarray(a, dtype=object), np.asarray(b, dtype=object)
    if a.shape != b.shape:
        return False
    sc = np.broadcast_to(np.asarray(scale, dtype=object), a.shape)
    return SP.conj(near(p, q, s) for p, q, s in zip(a.reshape(-1), b.reshape(-1), sc.reshape(-1)))


def cabs1(re, im):
    """|re| + |im| elementwise (a cheap magnitude for tolerances)"""
    out = np.empty(re.shape, dtype=object)
    for i in np.ndindex(*re.shape):
        out[i] = S.add(S.sabs(re[i]), S.sabs(im[i]))
    return out


def sq(v):
    return S.mul(v, v)


def mean_abs2(re, im):
    acc = 0
    n = 0
    for a, b in zip(re.reshape(-1), im.reshape(-1)):
        acc = S.add(acc, S.add(sq(a), sq(b)))
        n += 1
    return S.div(acc, n)


def sqrt_defs():
    """(s, r) for every auxiliary s introduced by the engine as  s >= 0 and s*s == r  (side constraints of the current path)"""
    ex = S.explorer()
    out = []
    if ex is None:
        return out
    for c in ex.sides:
        if z3.is_and(c) and c.num_args() == 2:
            a, b = c.arg(0), c.arg(1)
            if z3.is_ge(a) and z3.is_eq(b) and z3.is_mul(b.arg(0)) and b.arg(0).num_args() == 2 and z3.eq(b.arg(0).arg(0), a.arg(0)) and z3.eq(b.arg(0).arg(1), a.arg(0)) and z3.is_const(a.arg(0)):
                out.append((a.arg(0), b.arg(1)))
    return out


def _rewrite_squares(e, defs):
    if z3.is_mul(e):
        kids = [_rewrite_squares(k, defs) for k in e.children()]
        for sv, r in defs:
            idx = [i for i, k in enumerate(kids) if z3.eq(k, sv)]
            while len(idx) >= 2:
                i, j = idx.pop(), idx.pop()
                kids[i] = r
                kids[j] = z3.RealVal(1)
        # |t| * |t| == t * t : a pair of identical If(c, a, b) factors with a + b == 0 is a*a whatever c is
        for i in range(len(kids)):
            for j in range(i + 1, len(kids)):
                ki, kj = kids[i], kids[j]
                if z3.is_app(ki) and ki.decl().kind() == z3.Z3_OP_ITE and z3.eq(ki, kj):
                    a, b = ki.arg(1), ki.arg(2)
                    zs = z3.simplify(a + b, som=True)
                    if z3.is_rational_value(zs) and zs.numerator_as_long() == 0:
                        kids[i], kids[j] = a, a
        acc = kids[0]
        for k in kids[1:]:
            acc = acc * k
        return acc
    if z3.is_app(e) and e.num_args() > 0 and e.decl().kind() == z3.Z3_OP_POWER:
        base, ex_ = e.arg(0), e.arg(1)
        for sv, r in defs:
            if z3.eq(base, sv) and z3.is_rational_value(ex_) and ex_.denominator_as_long() == 1 and ex_.numerator_as_long() % 2 == 0 and ex_.numerator_as_long() > 0:
                acc = r
                for _ in range(ex_.numerator_as_long() // 2 - 1):
                    acc = acc * r
                return acc
        return e
    if z3.is_app(e) and e.num_args() > 0 and (z3.is_add(e) or z3.is_sub(e) or e.decl().kind() == z3.Z3_OP_UMINUS):
        kids = [_rewrite_squares(k, defs) for k in e.children()]
        return e.decl()(*kids)
    return e


def unsqrt(v):
    """rewrite s*s -> r inside the polynomial normal form of v for the engine's sqrt auxiliaries (s >= 0, s*s == r are side constraints of
    the path, so the rewritten term is equal to v under the path's constraints); other occurrences of s are left alone."""
    v = zsimp(v)
    if not isinstance(v, S.Sym) or v.sort != "real":
        return v
    return zsimp(S.Sym(_rewrite_squares(v.e, sqrt_defs())))


def _ratnorm(e):
    """(numerator, denominator) polynomials of a real z3 term built from + - * / (other terms are atoms)"""
    one = z3.RealVal(1)
    if z3.is_app(e) and e.num_args() > 0:
        k = e.decl().kind()
        if k == z3.Z3_OP_DIV:
            (an, ad), (bn, bd) = _ratnorm(e.arg(0)), _ratnorm(e.arg(1))
            return an * bd, ad * bn
        if k == z3.Z3_OP_MUL:
            n, d = one, one
            for c in e.children():
                cn, cd = _ratnorm(c)
                n, d = n * cn, d * cd
            return n, d
        if k in (z3.Z3_OP_ADD, z3.Z3_OP_SUB):
            n, d = _ratnorm(e.arg(0))
            for c in e.children()[1:]:
                cn, cd = _ratnorm(c)
                n, d = (n * cd + cn * d, d * cd) if k == z3.Z3_OP_ADD else (n * cd - cn * d, d * cd)
            return n, d
        if k == z3.Z3_OP_UMINUS:
            n, d = _ratnorm(e.arg(0))
            return -n, d
    return e, one


def rat_eq(a, b):
    """a == b as rational functions, decided by cross-multiplied polynomial normal form (valid wherever both denominators are non-zero;
    the denominators are returned so that the caller states their non-vanishing).  Returns (bool, [denominators])"""
    a, b = unsqrt(a), unsqrt(b)
    ea, eb = S.zreal(a), S.zreal(b)
    (an, ad), (bn, bd) = _ratnorm(ea), _ratnorm(eb)
    d = z3.simplify(z3.simplify(an * bd - bn * ad, som=True), som=True)
    ok = z3.is_rational_value(d) and d.numerator_as_long() == 0
    return ok, [S.Sym(ad), S.Sym(bd)]


def uf_apps(e, name, acc=None):
    acc = [] if acc is None else acc
    if z3.is_app(e):
        if e.decl().name() == name and e.num_args() == 1:
            if not any(z3.eq(e, x) for x in acc):
                acc.append(e)
        for c in e.children():
            uf_apps(c, name, acc)
    return acc


class Forced:
    """RNG contract stub that returns prescribed values: evaluation of the code under contract at a chosen point of the draw space"""

    def __init__(self, ctx, values):
        self.ctx = ctx
        self.values = list(values)
        self.k = 0

    def draw(self, law, shape, dtype):
        if self.k >= len(self.values):
            raise S.EngineFault("re-execution consumed more RNG draws than the recorded run")
        re, im = self.values[self.k]
        self.k += 1
        if tuple(re.shape) != tuple(shape) or (im is not None) != dtype.is_complex:
            raise S.EngineFault("re-execution requested a different RNG shape/dtype than the recorded run")
        if self.ctx.mode == "sym":
            return SymTensor(re.copy(), None if im is None else im.copy(), dtype)
        fdt = torch.float64
        tr = torch.tensor([float(v) for v in re.reshape(-1)], dtype=fdt).reshape(tuple(shape))
        if im is None:
            return tr.to(dtype)
        ti = torch.tensor([float(v) for v in im.reshape(-1)], dtype=fdt).reshape(tuple(shape))
        return torch.complex(tr, ti).to(dtype)


def eval_at(ctx, fn, args, kwargs, values, partial=False):
    """run the real function with the RNG draws prescribed; returns the result tensor (partial: also the number of draws consumed)"""
    rng = Forced(ctx, values)
    with (SymMode(rng=rng) if ctx.mode == "sym" else NativeRNGMode(rng)):
        out = fn(*args, **kwargs)
    if partial:
        return out, rng.k
    if rng.k != len(values):
        raise S.EngineFault("re-execution consumed fewer RNG draws than the recorded run")
    return out


VAR = {"normal": (1, None), "normal:complex": (Fraction(1, 2), Fraction(1, 2))}


def draw_symbols(draws, var_override=None):
    """list of real RNG symbols of the recorded draws: dict(k, comp, pos, sym, var)"""
    out = []
    for k, (name, law, t) in enumerate(draws):
        re, im = PC(t) if t.dtype.is_complex else (PC(t)[0], None)
        vr = VAR.get(law) if var_override is None else (var_override, var_override)
        if vr is None:
            raise S.Unsupported(f"moment table has no entry for RNG law {law}")
        for m, v in enumerate(re.reshape(-1)):
            out.append(dict(k=k, comp=0, pos=m, sym=v, var=vr[0]))
        if im is not None:
            for m, v in enumerate(im.reshape(-1)):
                out.append(dict(k=k, comp=1, pos=m, sym=v, var=vr[1]))
    return out


def zero_values(draws):
    vals = []
    for name, law, t in draws:
        vals.append((oarr(tuple(t.shape), 0), oarr(tuple(t.shape), 0) if t.dtype.is_complex else None))
    return vals


def unit_values(draws, s):
    vals = zero_values(draws)
    re, im = vals[s["k"]]
    (re if s["comp"] == 0 else im).reshape(-1)[s["pos"]] = 1
    return vals


def recorded_values(draws):
    """the recorded (symbolic / native) draws as prescribed values: re-execution at the same point of the draw space"""
    vals = []
    for name, law, t in draws:
        re, im = PC(t)
        vals.append((re, im if t.dtype.is_complex else None))
    return vals


def noise_algebra(ctx, fn, args, kwargs, y, base, draws, target=None, snr_lin=None, signal_power=None, var_override=None, tag="", xscale=None, prefix=()):
    """the five clauses of the module docstring for one channel run.
    y: result tensor of the recorded run; base = (re, im) payload the noise is added to; draws: the recorded RNG draws of the noise stage
    (prefix: values prescribed for the draws made before the noise stage, e.g. the fading draws, held fixed); target: configured noise power (payload scalar) or None; snr_lin: 10^(snr/10) as exact rational of the float64."""
    yr, yi = PC(y)
    br, bi = base
    n = yr.size
    syms = draw_symbols(draws, var_override)
    shapes_ok = all(int(np.prod(tuple(t.shape))) == n for _, _, t in draws)
    ctx.ensure(tag + "one_draw_per_element", shapes_ok and len(syms) > 0)
    if not shapes_ok or not syms:
        return None
    prefix = list(prefix)
    y0 = eval_at(ctx, fn, args, kwargs, prefix + zero_values(draws))
    y0r, y0i = PC(y0)
    if xscale is None:
        xscale = cabs1(br, bi)
    ctx.ensure(tag + "zero_draw_gives_base", S.land(all_near(y0r, br, xscale), all_near(y0i, bi, xscale)))
    # coefficients by evaluation at the unit vectors
    C = []
    for s in syms:
        yj = eval_at(ctx, fn, args, kwargs, prefix + unit_values(draws, s))
        yjr, yji = PC(yj)
        cr = np.array([S.sub(a, b) for a, b in zip(yjr.reshape(-1), y0r.reshape(-1))], dtype=object)
        ci = np.array([S.sub(a, b) for a, b in zip(yji.reshape(-1), y0i.reshape(-1))], dtype=object)
        C.append((cr, ci))
    yrf, yif, y0rf, y0if = yr.reshape(-1), yi.reshape(-1), y0r.reshape(-1), y0i.reshape(-1)
    xs = np.asarray(xscale, dtype=object).reshape(-1)
    aff, own, pw = [], [], []
    powers = []
    for i in range(n):
        accr, acci, mag, p = 0, 0, xs[i], 0
        for s, (cr, ci) in zip(syms, C):
            if s["pos"] != i:
                own.append(S.land(near(cr[i], 0, xs[i]), near(ci[i], 0, xs[i])))
                continue
            accr = S.add(accr, S.mul(cr[i], s["sym"]))
            acci = S.add(acci, S.mul(ci[i], s["sym"]))
            p = S.add(p, S.mul(S.add(unsqrt(sq(cr[i])), unsqrt(sq(ci[i]))), s["var"]))
            mag = S.add(mag, S.mul(S.add(S.sabs(cr[i]), S.sabs(ci[i])), S.sabs(s["sym"])))
        aff.append(S.land(near(S.sub(yrf[i], y0rf[i]), accr, mag), near(S.sub(yif[i], y0if[i]), acci, mag)))
        powers.append(p)
    ctx.ensure(tag + "affine_in_draws", SP.conj(aff))
    ctx.ensure(tag + "own_symbols", SP.conj(own))
    for i in range(n):
        csum = 0
        for s, (cr, ci) in zip(syms, C):
            if s["pos"] == i:
                csum = S.add(csum, S.add(S.sabs(cr[i]), S.sabs(ci[i])))
        if target is not None:
            alts = target if isinstance(target, tuple) else (target,)
            pw.append(SP.disj(near(powers[i], t_, S.add(S.sabs(t_), S.mul(xs[i], csum))) for t_ in alts))
        if snr_lin is not None:
            sp = signal_power.reshape(-1)[i] if isinstance(signal_power, np.ndarray) else signal_power
            pw.append(near(S.mul(powers[i], snr_lin), sp, S.add(S.sabs(sp), S.mul(S.mul(xs[i], csum), S.sabs(snr_lin)))))
    ctx.ensure(tag + ("noise_power" if target is not None else "snr"), SP.conj(pw))
    return powers


def snr_linear_const(snr_db):
    """10^(snr/10) evaluated in float64 (torch's pow, so that the constant coincides with the float the library computes; the deviation from
    the true real value is below 1e-15 relative and is covered by the stated 1e-6)"""
    with torch._C.DisableTorchFunctionSubclass():
        v = float(10 ** (torch.tensor(float(snr_db), dtype=torch.float64) / 10.0))
    assert abs(v / 10.0 ** (float(snr_db) / 10.0) - 1) < 1e-12
    return Fraction(v)


def power_tensor(ctx, p):
    """0-dim float32 tensor holding the (symbolic) noise power"""
    if ctx.mode == "sym":
        return ctx.tensor(np.asarray(p, dtype=object), torch.float32)
    return torch.tensor(float(p))


def make_input(ctx, kind, shape, name="x", dtype=None):
    if kind == "real":
        return ctx.reals(name, shape, dtype or torch.float32)
    return ctx.complexes(name, shape, dtype or torch.complex64)


# ================================================================================================ AWGN
def _awgn_cfgs(tier):
    out = []
    shapes = ("n3", "2x2") if tier == "quick" else ("n1", "n2", "n3", "n4", "2x2", "1x3", "2x1x2")
    for kind in ("real", "complex"):
        for shp in shapes:
            out.append(Cfg("awgn", kind, shp, "P", "sym"))
        for p in P_GRID_Q if tier == "quick" else P_GRID_T:
            out.append(Cfg("awgn", kind, "n2", "P", p))
        for s in SNR_GRID_Q if tier == "quick" else SNR_GRID_T:
            out.append(Cfg("awgn", kind, "n3" if kind == "real" else "n2", "snr", s))
        if tier == "thorough":
            for s in (-20.0, 7.0, 40.0):
                out.append(Cfg("awgn", kind, "2x2", "snr", s))
        # history: the same channel object has first carried a block of the OTHER kind (real <-> complex) and of another dtype
        out.append(Cfg("awgn", kind, "n2", "P", 0.5, "after_other_kind"))
        out.append(Cfg("awgn", kind, "n2", "snr", 10.0, "after_other_kind"))
        out.append(Cfg("awgn", kind, "n2", "P", 0.5, "after_float64"))
    return out


def _configure(ctx, how, val):
    """(constructor kwargs, target noise power payload | None, snr_lin | None)"""
    if how == "P":
        if val == "sym":
            p = ctx.scalar("P", "real", sampler=lambda r: 10 ** r.uniform(-3, 3))
            ctx.assume(S.lt(0, p))
            return dict(avg_noise_power=power_tensor(ctx, p)), p, None
        return dict(avg_noise_power=float(val)), Fraction(float(val)), None
    return dict(snr_db=float(val)), None, snr_linear_const(val)


@obligation("C07.awgn", function=FA + ":AWGNChannel.forward; " + FA + ":_apply_noise; " + FU + ":snr_to_noise_power; " + FU + ":snr_db_to_linear", configs=_awgn_cfgs, max_paths=64, timeout_ms=60000)
def awgn(ctx, cfg):
    from kaira.channels.analog import AWGNChannel

    _, kind, shp, how, val = cfg[:5]
    history = cfg[5] if len(cfg) > 5 else None
    shape = SHAPES[shp]
    x = make_input(ctx, kind, shape)
    with ctx.sym():
        kw, target, snr_lin = _configure(ctx, how, val)
        chan = AWGNChannel(**kw)
    if history:
        if history == "after_other_kind":
            other = torch.tensor([0.5 - 1.0j, 2.0 + 0.25j, -1.0 + 0j]) if kind == "real" else torch.tensor([0.5, 2.0, -1.0])
        else:
            other = torch.tensor([0.5, 2.0, -1.0], dtype=torch.float64) if kind == "real" else torch.tensor([0.5 - 1.0j, 2.0 + 0.25j], dtype=torch.complex128)
        first = ctx.call(chan.forward, other)
        ctx.ensure("earlier_block_transmitted", first.ok, note=repr(first.exc) if not first.ok else "")
    base = len(ctx.rng_draws)
    out = ctx.call(chan.forward, x)
    ctx.ensure("returns", out.ok, note=repr(out.exc) if not out.ok else "")
    if not out.ok:
        return
    y = out.value
    ctx.ensure("shape_dtype_preserved", SP.shape_is(y, shape) and y.dtype == x.dtype)
    ctx.ensure("input_unmodified", out.unmodified)
    xr, xi = PC(x)
    noise_algebra(ctx, chan.forward, (x,), {}, y, (xr, xi), list(ctx.rng_draws[base:]), target=target, snr_lin=snr_lin, signal_power=mean_abs2(xr, xi))


# ================================================================================================ caller-supplied noise
def _sup_cfgs(tier):
    out = []
    for xk in ("real", "complex"):
        for nk in ("real", "complex"):
            for shp in ("n3", "2x2") + (("n1", "2x1x2") if tier == "thorough" else ()):
                out.append(Cfg("awgn_supplied", xk, nk, shp))
    return out


@obligation("C07.awgn_supplied_noise", function=FA + ":AWGNChannel.forward", configs=_sup_cfgs, max_paths=16, timeout_ms=20000)
def awgn_supplied(ctx, cfg):
    """forward(x, noise=n) == x + n : no RNG draw, no rescaling (equality up to the float rounding of the addition on native replay)"""
    from kaira.channels.analog import AWGNChannel

    _, xk, nk, shp = cfg
    shape = SHAPES[shp]
    x = make_input(ctx, xk, shape)
    n = make_input(ctx, nk, shape, name="n")
    chan = AWGNChannel(avg_noise_power=0.5)
    out = ctx.call(chan.forward, x, noise=n)
    ctx.ensure("returns", out.ok, note=repr(out.exc) if not out.ok else "")
    if not out.ok:
        return
    y = out.value
    ctx.ensure("shape_preserved", SP.shape_is(y, shape))
    ctx.ensure("no_rng_draw", len(ctx.rng_draws) == 0)
    ctx.ensure("input_unmodified", out.unmodified)
    (xr, xi), (nr, ni), (yr, yi) = PC(x), PC(n), PC(y)
    sc = np.array([S.add(a, b) for a, b in zip(cabs1(xr, xi).reshape(-1), cabs1(nr, ni).reshape(-1))], dtype=object).reshape(shape)
    sr = np.array([S.add(a, b) for a, b in zip(xr.reshape(-1), nr.reshape(-1))], dtype=object).reshape(shape)
    si = np.array([S.add(a, b) for a, b in zip(xi.reshape(-1), ni.reshape(-1))], dtype=object).reshape(shape)
    ctx.ensure("y_is_x_plus_n", S.land(all_near(yr, sr, sc), all_near(yi, si, sc)))
    if ctx.mode == "sym":
        ctx.ensure("y_is_x_plus_n_exact_over_reals", S.land(SP.all_eq(yr, sr), SP.all_eq(yi, si)))


# ================================================================================================ nonlinear channel
def _cubic(t):
    return t + 0.1 * t * t * t


def _softclip(t):
    return t / (1 + t * t)


def _square(t):
    return 0.5 * t * t + 0.25 * t


NLF = {"cubic": _cubic, "softclip": _softclip, "square": _square}
XCONC = {"n3": [(0.75, -0.5), (-1.25, 0.25), (0.5, 2.0)], "n2": [(1.5, 0.5), (-0.25, -1.0)]}


def _nl_cfgs(tier):
    out = []
    noise = [("none", 0), ("P", "sym"), ("snr", 10.0)] + ([("snr", -20.0), ("snr", 40.0), ("P", 1e-3), ("P", 1e3)] if tier == "thorough" else [])
    for how, val in noise:
        for f in ("cubic", "softclip"):
            out.append(Cfg("nonlinear", "real", "n3", f, "direct", how, val))
            out.append(Cfg("nonlinear", "complex", "n2", f, "cartesian", how, val))
        out.append(Cfg("nonlinear", "complex", "n2", "square", "direct", how, val))
        out.append(Cfg("nonlinear", "xconc", "n3", "cubic", "polar", how, val))
    if tier == "thorough":
        out.append(Cfg("nonlinear", "real", "2x2", "cubic", "direct", "P", "sym"))
        out.append(Cfg("nonlinear", "complex", "2x2", "cubic", "cartesian", "snr", 3.0))
    return out


def _nl_spec(ctx, f, mode, x):
    """f applied as the documentation of complex_mode says: direct f(x); cartesian f(Re) + i f(Im); polar f(|x|) e^{i arg x}"""
    with ctx.sym():
        if not x.dtype.is_complex or mode == "direct":
            return PC(f(x))
        if mode == "cartesian":
            return PC(f(x.real))[0], PC(f(x.imag))[0]
        mag = torch.abs(x)
        r = f(mag) / mag
        return PC(r * x)


@obligation("C07.nonlinear", function=FA + ":NonlinearChannel.forward; " + FA + ":_apply_noise", configs=_nl_cfgs, max_paths=64, timeout_ms=60000)
def nonlinear(ctx, cfg):
    from kaira.channels.analog import NonlinearChannel

    _, kind, shp, fname, mode, how, val = cfg
    shape = SHAPES[shp]
    f = NLF[fname]
    if kind == "xconc":
        # complex128: with concrete x and concrete P the re-executions at unit vectors run on the real float kernels, and in complex64
        # the cancellation (f(x) + s) - f(x) would put a 1e-5 relative error on the extracted coefficient
        x = torch.tensor([complex(a, b) for a, b in XCONC[shp]], dtype=torch.complex128)
    else:
        x = make_input(ctx, kind, shape)
    with ctx.sym():
        if how == "none":
            kw, target, snr_lin = dict(add_noise=False), None, None
        else:
            kw, target, snr_lin = _configure(ctx, how, val)
            kw["add_noise"] = True
        chan = NonlinearChannel(f, complex_mode=mode, **kw)
    out = ctx.call(chan.forward, x)
    ctx.ensure("returns", out.ok, note=repr(out.exc) if not out.ok else "")
    if not out.ok:
        return
    y = out.value
    ctx.ensure("shape_preserved", SP.shape_is(y, shape))
    ctx.ensure("input_unmodified", out.unmodified)
    br, bi = _nl_spec(ctx, f, mode, x)
    xr, xi = PC(x)
    sc = np.array([S.add(S.add(a, b), 1) for a, b in zip(cabs1(br, bi).reshape(-1), cabs1(xr, xi).reshape(-1))], dtype=object).reshape(shape)
    if how == "none":
        yr, yi = PC(y)
        ctx.ensure("no_rng_draw", len(ctx.rng_draws) == 0)
        ctx.ensure("y_is_f_of_x", S.land(all_near(yr, br, sc), all_near(yi, bi, sc)))
        return
    noise_algebra(ctx, chan.forward, (x,), {}, y, (br, bi), list(ctx.rng_draws), target=target, snr_lin=snr_lin, signal_power=mean_abs2(br, bi), xscale=sc)


# ================================================================================================ one definition of SNR: utilities
# textbook:  snr_lin = 10^(snr_db/10);  snr_db = 10 log10(snr_lin);  P_n = P_s / 10^(snr_db/10);  snr_db = 10 log10(P_s / P_n);
#            P_s = mean |x|^2 ;  SNR(x, y) = 10 log10( mean|x|^2 / mean|y - x|^2 )
# pow10 / log10 are uninterpreted with the per-occurrence axioms of vk/ops_chan.py; the obligations below therefore prove that every
# function applies THE SAME pow10 / log10 to the textbook argument (e.g. snr/10 and not snr/20; P_s/P_n and not P_n/P_s or amplitudes).
FM = "kaira/metrics/signal/snr.py"
EPS32 = Fraction(float(torch.finfo(torch.float32).eps))
M_UP = Fraction(4342945, 10**7)  # 1/ln(10) = 0.43429448...
M_LO = Fraction(4342944, 10**7)


def pos_tensor(ctx, name, shape, lo=None, dtype=torch.float32):
    t = ctx.reals(name, shape, dtype, sampler=lambda r: 10 ** r.uniform(-2, 3))
    for v in PC(t)[0].reshape(-1):
        ctx.assume(S.lt(0, v) if lo is None else S.le(lo, v))
    return t


def spec_mean_abs2(x, dim, keepdim):
    """mean |x|^2 over `dim` (None: all) as payload array"""
    re, im = PC(x)
    a2 = np.empty(re.shape, dtype=object)
    for i in np.ndindex(*re.shape):
        a2[i] = S.add(sq(re[i]), sq(im[i]))
    if dim is None:
        acc = 0
        for v in a2.reshape(-1):
            acc = S.add(acc, v)
        out = np.empty((), dtype=object)
        out[()] = S.div(acc, a2.size)
        return out.reshape((1,) * re.ndim) if keepdim else out
    ax = dim % re.ndim
    moved = np.moveaxis(a2, ax, -1)
    out = np.empty(moved.shape[:-1], dtype=object)
    for i in np.ndindex(*out.shape):
        acc = 0
        for v in moved[i]:
            acc = S.add(acc, v)
        out[i] = S.div(acc, moved.shape[-1])
    return np.expand_dims(out, ax) if keepdim else out


def _conv_cfgs(tier):
    out = []
    for shp in ("s", "n2") + (("2x2",) if tier == "thorough" else ()):
        out += [Cfg("db_to_linear", shp), Cfg("linear_to_db", shp, "pos"), Cfg("linear_to_db", shp, "neg"), Cfg("to_noise_power", shp, "tensor"), Cfg("noise_power_to_snr", shp, "pos"), Cfg("noise_power_to_snr", shp, "nonpos")]
    for s in SNR_GRID_Q if tier == "quick" else SNR_GRID_T:
        out.append(Cfg("to_noise_power", "n2", s))
    return out


def _shape_of(shp):
    return () if shp == "s" else SHAPES[shp]


@obligation("C07.snr_conversions", function=FU + ":snr_db_to_linear; " + FU + ":snr_linear_to_db; " + FU + ":snr_to_noise_power; " + FU + ":noise_power_to_snr", configs=_conv_cfgs, max_paths=64, timeout_ms=30000, crosscheck=0)
def snr_conversions(ctx, cfg):
    """crosscheck=0: results contain the uninterpreted pow10/log10, which the harness' model-based differential check cannot evaluate;
    the concrete behaviour of the same functions is covered by C07.snr_grid (bounded, against mpmath)."""
    from kaira.utils import snr as U

    fn, shp = cfg[0], cfg[1]
    shape = _shape_of(shp)
    if fn == "db_to_linear":
        s = ctx.reals("snr_db", shape, sampler=lambda r: r.uniform(-20, 40))
        out = ctx.call(U.snr_db_to_linear, s)
        ctx.ensure("returns", out.ok, note=repr(out.exc) if not out.ok else "")
        if not out.ok:
            return
        o, sv = PC(out.value)[0], PC(s)[0]
        ctx.ensure("shape", SP.shape_is(out.value, shape))
        ctx.ensure("is_pow10_of_tenth", SP.conj(S.eq(a, OC.spow10(S.div(b, 10))) for a, b in zip(o.reshape(-1), sv.reshape(-1))))
        ctx.ensure("positive", SP.conj(S.lt(0, a) for a in o.reshape(-1)))
        ctx.ensure("0dB_is_1_and_10dB_is_10", SP.conj(S.land(S.lor(S.ne(b, 0), S.eq(a, 1)), S.lor(S.ne(b, 10), S.eq(a, 10))) for a, b in zip(o.reshape(-1), sv.reshape(-1))))
        return
    if fn == "linear_to_db":
        v = ctx.reals("snr_lin", shape, sampler=lambda r: 10 ** r.uniform(-2, 4) if cfg[2] == "pos" else r.uniform(-1, 1))
        vv = PC(v)[0]
        if cfg[2] == "pos":
            for a in vv.reshape(-1):
                ctx.assume(S.lt(0, a))
        else:
            ctx.assume(SP.disj(S.lt(a, 0) for a in vv.reshape(-1)))
        out = ctx.call(U.snr_linear_to_db, v)
        if cfg[2] == "neg":
            ctx.ensure("negative_ratio_rejected", out.raised(ValueError), note=repr(out))
            return
        ctx.ensure("returns", out.ok, note=repr(out.exc) if not out.ok else "")
        if not out.ok:
            return
        o = PC(out.value)[0]
        ctx.ensure("shape", SP.shape_is(out.value, shape))
        ctx.ensure("is_10_log10", SP.conj(S.eq(a, S.mul(10, OC.slog10(b))) for a, b in zip(o.reshape(-1), vv.reshape(-1))))
        # round trip through the library's own inverse: db -> linear -> db
        with ctx.sym():
            back = U.snr_db_to_linear(out.value)
        ctx.ensure("db_to_linear_inverts", SP.conj(S.eq(a, b) for a, b in zip(PC(back)[0].reshape(-1), vv.reshape(-1))))
        return
    if fn == "to_noise_power":
        ps = pos_tensor(ctx, "Ps", shape)
        pv = PC(ps)[0]
        if cfg[2] == "tensor":
            s = ctx.reals("snr_db", (), sampler=lambda r: r.uniform(-20, 40))
            out = ctx.call(U.snr_to_noise_power, ps, s)
            lin = OC.spow10(S.div(PC(s)[0][()], 10))
        else:
            out = ctx.call(U.snr_to_noise_power, ps, float(cfg[2]))
            lin = snr_linear_const(cfg[2])
        ctx.ensure("returns", out.ok, note=repr(out.exc) if not out.ok else "")
        if not out.ok:
            return
        o = PC(out.value)[0]
        ctx.ensure("shape", SP.shape_is(out.value, shape))
        ctx.ensure("Pn_times_linear_snr_is_Ps", SP.conj(near(S.mul(a, lin), b, S.sabs(b)) for a, b in zip(o.reshape(-1), pv.reshape(-1))))
        if cfg[2] == "tensor":
            ctx.ensure("Pn_is_Ps_over_pow10", SP.conj(S.eq(a, S.div(b, lin)) for a, b in zip(o.reshape(-1), pv.reshape(-1))))
            # measuring it back with the library's own inverse returns the configured value
            with ctx.sym():
                back = U.noise_power_to_snr(ps, out.value)
            sv = PC(s)[0][()]
            ctx.ensure("noise_power_to_snr_inverts", SP.conj(S.eq(a, sv) for a in PC(back)[0].reshape(-1)))
        return
    if fn == "noise_power_to_snr":
        ps = pos_tensor(ctx, "Ps", shape)
        pn = ctx.reals("Pn", shape, sampler=lambda r: 10 ** r.uniform(-3, 3) if cfg[2] == "pos" else r.choice([0.0, -1.0, 1.0]))
        nv = PC(pn)[0]
        if cfg[2] == "pos":
            for a in nv.reshape(-1):
                ctx.assume(S.lt(0, a))
        else:
            ctx.assume(SP.disj(S.le(a, 0) for a in nv.reshape(-1)))
        out = ctx.call(U.noise_power_to_snr, ps, pn)
        if cfg[2] == "nonpos":
            ctx.ensure("nonpositive_noise_power_rejected", out.raised(ValueError), note=repr(out))
            return
        ctx.ensure("returns", out.ok, note=repr(out.exc) if not out.ok else "")
        if not out.ok:
            return
        o = PC(out.value)[0]
        ctx.ensure("is_10_log10_Ps_over_Pn", SP.conj(S.eq(a, S.mul(10, OC.slog10(S.div(b, c)))) for a, b, c in zip(o.reshape(-1), PC(ps)[0].reshape(-1), nv.reshape(-1))))
        return
    raise AssertionError(fn)


# ------------------------------------------------------------------------------------------------ measurement functions
def _meas_cfgs(tier):
    out = []
    for kind in ("real", "complex"):
        for shp, dim in (("n3", None), ("2x2", None), ("2x2", -1), ("2x2", 0)) + ((("2x1x2", 1), ("n1", None)) if tier == "thorough" else ()):
            for keep in (False, True):
                out.append(Cfg("estimate_signal_power", kind, shp, dim, keep))
            out.append(Cfg("calculate_snr", kind, shp, dim, False))
        for shp in ("n3", "2x2", "1x3"):
            if shp == "2x2" and kind == "complex":
                continue  # path-feasibility query (row noise power < eps under P_n >= 1e-3, 8 real unknowns per row) does not terminate reliably in nlsat: batched complex rows are covered by C07.snr_grid (bounded) only
            for mode in ("db", "linear"):
                out.append(Cfg("metric", kind, shp, mode))
    return out


def log_quotient_axioms(a, la, b, lb, r):
    """trusted instances of the log10 theory for a, b, r > 0 with a == r*b:  log10(a) - log10(b) == log10(r),
    (1 - 1/r)/ln10 <= log10(r) <= (r - 1)/ln10   (ln r <= r - 1 applied to r and to 1/r)"""
    ex = S.explorer()
    if ex is None:
        return
    f = S._uf("log10")
    lr = f(r)
    ex.add_side(z3.Implies(z3.And(a > 0, b > 0, r > 0, a == r * b), la - lb == lr))
    mu, ml = S.zreal(M_UP), S.zreal(M_LO)
    ex.add_side(z3.Implies(z3.And(r > 0, r >= 1), z3.And(lr <= (r - 1) * mu, lr >= (1 - 1 / r) * ml)))
    ex.add_side(z3.Implies(z3.And(r > 0, r < 1), z3.And(lr <= (r - 1) * ml, lr >= (1 - 1 / r) * mu)))


@obligation("C07.snr_measurement", function=FU + ":estimate_signal_power; " + FU + ":calculate_snr; " + FM + ":SignalToNoiseRatio.forward", configs=_meas_cfgs, max_paths=64, timeout_ms=60000, crosscheck=0)
def snr_measurement(ctx, cfg):
    """crosscheck=0 for the same reason as C07.snr_conversions (log10 is uninterpreted); concrete behaviour: C07.snr_grid."""
    from kaira.metrics.signal.snr import SignalToNoiseRatio
    from kaira.utils import snr as U

    fn, kind, shp = cfg[0], cfg[1], cfg[2]
    shape = SHAPES[shp]
    x = make_input(ctx, kind, shape)
    if fn == "estimate_signal_power":
        dim, keep = cfg[3], cfg[4]
        out = ctx.call(U.estimate_signal_power, x, dim=dim, keepdim=keep)
        ctx.ensure("returns", out.ok, note=repr(out.exc) if not out.ok else "")
        if not out.ok:
            return
        want = spec_mean_abs2(x, dim, keep)
        o = PC(out.value)[0]
        ctx.ensure("shape", tuple(o.shape) == tuple(want.shape))
        ctx.ensure("is_mean_abs_squared", all_near(o, want, want) if tuple(o.shape) == tuple(want.shape) else False)
        return
    y = make_input(ctx, kind, shape, name="y")
    (xr, xi), (yr, yi) = PC(x), PC(y)
    nre = np.array([S.sub(a, b) for a, b in zip(yr.reshape(-1), xr.reshape(-1))], dtype=object).reshape(shape)
    nim = np.array([S.sub(a, b) for a, b in zip(yi.reshape(-1), xi.reshape(-1))], dtype=object).reshape(shape)

    class _N:  # payload holder with the interface PC() understands
        pass

    def m2(re, im, dim):
        a2 = np.empty(re.shape, dtype=object)
        for i in np.ndindex(*re.shape):
            a2[i] = S.add(sq(re[i]), sq(im[i]))
        if dim is None:
            acc = 0
            for v in a2.reshape(-1):
                acc = S.add(acc, v)
            o = np.empty((), dtype=object)
            o[()] = S.div(acc, a2.size)
            return o
        moved = np.moveaxis(a2, dim % re.ndim, -1)
        o = np.empty(moved.shape[:-1], dtype=object)
        for i in np.ndindex(*o.shape):
            acc = 0
            for v in moved[i]:
                acc = S.add(acc, v)
            o[i] = S.div(acc, moved.shape[-1])
        return o

    floor = Fraction(1, 1000)
    if fn == "calculate_snr":
        dim = cfg[3]
        ps, pn = m2(xr, xi, dim), m2(nre, nim, dim)
        for v in pn.reshape(-1):
            ctx.assume(S.le(floor, v))  # requires P_n >= 1e-3 : the clamp(min=eps) is inactive
        out = ctx.call(U.calculate_snr, x, y, dim=dim)
        ctx.ensure("returns", out.ok, note=repr(out.exc) if not out.ok else "")
        if not out.ok:
            return
        o = PC(out.value)[0]
        ctx.ensure("shape", tuple(o.shape) == tuple(ps.shape))
        ctx.ensure("is_10_log10_Ps_over_Pn", SP.conj(S.eq(a, S.mul(10, OC.slog10(S.div(b, c)))) for a, b, c in zip(o.reshape(-1), ps.reshape(-1), pn.reshape(-1))))
        return
    # metric
    mode = cfg[3]
    batched = len(shape) > 1 and shape[0] > 1
    ps, pn = (m2(xr, xi, -1), m2(nre, nim, -1)) if batched and len(shape) == 2 else (m2(xr, xi, None), m2(nre, nim, None))
    for v in pn.reshape(-1):
        ctx.assume(S.le(floor, v))
    for v in ps.reshape(-1):
        ctx.assume(S.lt(0, v))
    met = SignalToNoiseRatio(mode=mode)
    out = ctx.call(met.forward, x, y)
    ctx.ensure("returns", out.ok, note=repr(out.exc) if not out.ok else "")
    if not out.ok:
        return
    o = PC(out.value)[0]
    ctx.ensure("one_value_per_batch_item", tuple(o.shape) == tuple(ps.shape))
    if tuple(o.shape) != tuple(ps.shape):
        return
    # step 1 (normal form): the value returned is  Ps/(Pn + eps)  resp.  10 log10 of it, as rational functions of the inputs
    # step 2 (lemma, fresh n = Ps > 0, d = Pn >= 1e-3): n/(d + eps) resp. its log is within the stated distance of the textbook n/d
    struct, dens = [], []
    for a, b, c in zip(o.reshape(-1), ps.reshape(-1), pn.reshape(-1)):
        code_form = S.div(b, S.add(c, EPS32))
        if ctx.mode != "sym":
            ratio = b / c
            if mode == "linear":
                struct.append(abs(a - ratio) <= Fraction(12, 10**5) * ratio + RT * ratio)
            else:
                struct.append(abs(a - 10 * Fraction(math.log10(float(ratio)))) <= Fraction(1, 1000))
            continue
        textbook = S.div(b, c)
        if mode == "linear":
            ok, dd = rat_eq(a, code_form)
            if not ok:
                ok, dd = rat_eq(a, textbook)  # the exact textbook value is of course admissible too
        else:
            apps = uf_apps(a.e, "log10")
            ok = len(apps) == 1
            dd = []
            if ok:
                L = z3.Real("L!abs")
                rest = z3.simplify(z3.substitute(a.e, (apps[0], L)) - 10 * L, som=True)
                ok = z3.is_rational_value(rest) and rest.numerator_as_long() == 0
                ok2, dd = rat_eq(S.Sym(apps[0].arg(0)), code_form)
                if not ok2:
                    ok2, dd = rat_eq(S.Sym(apps[0].arg(0)), textbook)
                ok = ok and ok2
        struct.append(ok)
        dens += [S.ne(v, 0) for v in dd]
    ctx.ensure("returns_Ps_over_Pn_or_Pn_plus_eps" if mode == "linear" else "returns_10_log10_of_Ps_over_Pn_or_Pn_plus_eps", SP.conj(struct))
    if ctx.mode != "sym":
        return
    ctx.ensure("denominators_nonzero", SP.conj(dens))
    # step 2 is C07.snr_eps_lemma (discharged on its own: it does not mention the signals)


@obligation("C07.snr_eps_lemma", function=FM + ":SignalToNoiseRatio.forward", configs=lambda tier: [Cfg("eps_lemma", "linear"), Cfg("eps_lemma", "db")], max_paths=4, timeout_ms=60000, crosscheck=0)
def snr_eps_lemma(ctx, cfg):
    """for all P_s = n > 0 and P_n = d >= 1e-3:  n/(d + eps) (the value SignalToNoiseRatio returns, see C07.snr_measurement step 1) is within
    1.2e-4 relative of the textbook n/d, and 10 log10 of it within 1e-3 dB of 10 log10(n/d)   (eps = float32 machine epsilon)"""
    mode = cfg[1]
    floor = Fraction(1, 1000)
    n_ = ctx.scalar("n", "real", sampler=lambda r: 10 ** r.uniform(-3, 3))
    d_ = ctx.scalar("d", "real", sampler=lambda r: 10 ** r.uniform(-3, 3))
    ctx.assume(S.land(S.lt(0, n_), S.le(floor, d_)))
    if ctx.mode != "sym":
        n_, d_ = Fraction(n_), Fraction(d_)
    ratio, code = S.div(n_, d_), S.div(n_, S.add(d_, EPS32))
    if mode == "linear":
        ctx.ensure("eps_moves_ratio_by_at_most_1.2e-4_relative", S.land(S.le(code, ratio), S.le(S.mul(ratio, 1 - Fraction(12, 10**5)), code)))
        return
    if ctx.mode != "sym":
        ctx.ensure("eps_moves_snr_by_at_most_1e-3_dB", abs(10 * math.log10(float(code)) - 10 * math.log10(float(ratio))) <= 1e-3)
        return
    la, lb = OC.slog10(code), OC.slog10(ratio)
    log_quotient_axioms(S.zreal(code), S.zreal(la), S.zreal(ratio), S.zreal(lb), S.zreal(S.div(d_, S.add(d_, EPS32))))
    ctx.ensure("eps_moves_snr_by_at_most_1e-3_dB", S.le(S.sabs(S.sub(S.mul(10, la), S.mul(10, lb))), Fraction(1, 1000)))


# ================================================================================================ Laplacian channel
FL = FA + ":LaplacianChannel."


def _mp_eval(e, env):
    """evaluate a quantifier-free real/bool z3 term with mpmath (uninterpreted log = natural logarithm)"""
    import mpmath as mp

    if z3.is_rational_value(e):
        return mp.mpf(e.numerator_as_long()) / mp.mpf(e.denominator_as_long())
    if z3.is_true(e):
        return True
    if z3.is_false(e):
        return False
    if z3.is_const(e):
        return env[e.decl().name()]
    k = e.decl().kind()
    kids = [_mp_eval(c, env) for c in e.children()]
    if k == z3.Z3_OP_ADD:
        return sum(kids[1:], kids[0])
    if k == z3.Z3_OP_SUB:
        r = kids[0]
        for c in kids[1:]:
            r = r - c
        return r
    if k == z3.Z3_OP_MUL:
        r = kids[0]
        for c in kids[1:]:
            r = r * c
        return r
    if k == z3.Z3_OP_DIV:
        return kids[0] / kids[1]
    if k == z3.Z3_OP_UMINUS:
        return -kids[0]
    if k == z3.Z3_OP_ITE:
        return kids[1] if kids[0] else kids[2]
    if k == z3.Z3_OP_LE:
        return kids[0] <= kids[1]
    if k == z3.Z3_OP_LT:
        return kids[0] < kids[1]
    if k == z3.Z3_OP_GE:
        return kids[0] >= kids[1]
    if k == z3.Z3_OP_GT:
        return kids[0] > kids[1]
    if k == z3.Z3_OP_EQ:
        return kids[0] == kids[1]
    if k == z3.Z3_OP_NOT:
        return not kids[0]
    if k == z3.Z3_OP_AND:
        return all(kids)
    if k == z3.Z3_OP_OR:
        return any(kids)
    if k == z3.Z3_OP_UNINTERPRETED and e.decl().name() == "log":
        return mp.log(kids[0])
    raise S.Unsupported(f"mpmath evaluation of {e.decl().name()}")


def _lap_t_cfgs(tier):
    return [Cfg("laplacian_transform", 2)] + ([Cfg("laplacian_transform", 3)] if tier == "thorough" else [])


@obligation("C07.laplacian_transform", function=FL + "_get_laplacian_noise", configs=_lap_t_cfgs, max_paths=16, timeout_ms=60000, crosscheck=0)
def laplacian_transform(ctx, cfg):
    """contract of the callee used by C07.laplacian: _get_laplacian_noise(shape) = T(u) elementwise for ONE uniform draw u of that shape, with
    T(1-u) = -T(u) (so E T = 0 for the symmetric uniform law) and E T^2 = 2(1-delta), delta <= 1e-3, obtained by mpmath quadrature of
    the expression the real code produced.  crosscheck=0: log is uninterpreted in the solver model."""
    import mpmath as mp
    from kaira.channels.analog import LaplacianChannel

    n = cfg[1]
    chan = LaplacianChannel(scale=1.0)
    dev = torch.device("cpu")
    fn = chan._get_laplacian_noise
    out = ctx.call(fn, (n,), dev)
    ctx.ensure("returns", out.ok, note=repr(out.exc) if not out.ok else "")
    if not out.ok:
        return
    t = out.value
    draws = list(ctx.rng_draws)
    ok = len(draws) == 1 and draws[0][1] == "uniform" and tuple(draws[0][2].shape) == (n,) and tuple(t.shape) == (n,) and not t.dtype.is_complex
    ctx.ensure("one_uniform_draw_of_the_requested_shape", ok)
    if not ok:
        return
    tv = PC(t)[0]
    u = PC(draws[0][2])[0]
    # elementwise: T_i depends on u_i only
    own = []
    for i in range(n):
        m = oarr((n,), Fraction(1, 4))
        m[i] = u[i]
        ti = PC(eval_at(ctx, fn, ((n,), dev), {}, [(m, None)]))[0]
        own.append(near(ti[i], tv[i], S.sabs(tv[i])))
    ctx.ensure("elementwise", SP.conj(own))
    # odd symmetry about 1/2 (u in (0,1); u = 0 has probability 0)
    for v in u:
        ctx.assume(S.lt(0, v))
    mirror = np.array([S.sub(1, v) for v in u], dtype=object)
    tm = PC(eval_at(ctx, fn, ((n,), dev), {}, [(mirror, None)]))[0]
    ctx.ensure("odd_about_one_half", SP.conj(near(S.add(a, b), 0, S.sabs(a)) for a, b in zip(tm, tv)))
    # moments of T(u), u uniform on (0,1)
    if ctx.mode == "sym":
        e = tv[0].e
        name = u[0].e.decl().name()
        f = lambda x: _mp_eval(e, {name: x})
        how = "mpmath quadrature of the extracted expression"
    else:
        def f(x):
            return mp.mpf(float(eval_at(ctx, fn, ((n,), dev), {}, [(np.array([Fraction(float(x))] + [Fraction(1, 4)] * (n - 1), dtype=object), None)])[0]))

        how = "mpmath quadrature of the real function (native replay)"
    mp.mp.dps = 20
    c = mp.mpf("0.4999995")
    pts = [0, mp.mpf("0.5") - c, mp.mpf("0.25"), mp.mpf("0.5"), mp.mpf("0.75"), mp.mpf("0.5") + c, 1]
    pts = [pts[0], mp.mpf("1e-9")] + pts[1:-1] + [1 - mp.mpf("1e-9"), pts[-1]]
    if ctx.mode != "sym":
        pts = [mp.mpf("1e-7"), mp.mpf("0.01"), mp.mpf("0.25"), mp.mpf("0.499"), mp.mpf("0.501"), mp.mpf("0.75"), mp.mpf("0.99"), 1 - mp.mpf("1e-7")]
        mp.mp.dps = 15
    m1 = mp.quad(f, pts, maxdegree=6 if ctx.mode != "sym" else 8)
    m2 = mp.quad(lambda x: f(x) ** 2, pts, maxdegree=6 if ctx.mode != "sym" else 8)
    ctx.ensure("mean_zero", abs(m1) <= 1e-6, note=f"E T = {mp.nstr(m1, 8)} ({how})")
    ctx.ensure("second_moment_2_within_1e-3", abs(m2 - 2) <= 2e-3, note=f"E T^2 = {mp.nstr(m2, 12)} = 2(1 - {mp.nstr(1 - m2 / 2, 4)}) ({how})")


def _lap_cfgs(tier):
    out = []
    for kind, shp in (("real", "n3"), ("complex", "n2")) + ((("real", "2x2"), ("complex", "2x2")) if tier == "thorough" else ()):
        out.append(Cfg("laplacian", kind, shp, "scale", "sym"))
        out.append(Cfg("laplacian", kind, shp, "P", "sym"))
        for p in (1e-3, 1e3) if tier == "quick" else P_GRID_T:
            out.append(Cfg("laplacian", kind, shp, "P", p))
        for s in (0.0, 10.0) if tier == "quick" else SNR_GRID_T:
            out.append(Cfg("laplacian", kind, shp, "snr", s))
    return out


@obligation("C07.laplacian", function=FL + "forward; " + FU + ":snr_to_noise_power", configs=_lap_cfgs, max_paths=64, timeout_ms=60000)
def laplacian(ctx, cfg):
    """forward with the callee _get_laplacian_noise replaced by its contract (C07.laplacian_transform): fresh independent symbols t with
    E t = 0, E t^2 = 2 (exactly 2(1-delta), delta <= 1e-3).  scale parameterisation: every real component is scale * t."""
    from kaira.channels.analog import LaplacianChannel

    _, kind, shp, how, val = cfg
    shape = SHAPES[shp]
    x = make_input(ctx, kind, shape)
    ncomp = 2 if kind == "complex" else 1
    with ctx.sym():
        if how == "scale":
            b = ctx.scalar("scale", "real", sampler=lambda r: 10 ** r.uniform(-2, 2))
            ctx.assume(S.lt(0, b))
            chan = LaplacianChannel(scale=power_tensor(ctx, b))
            # real input: scale * t, power 2 scale^2.  complex input: the documentation does not say whether `scale` is the scale of each
            # component (total 4 scale^2) or of the complex sample (total 2 scale^2): both readings are admitted
            target, snr_lin = (S.mul(2, sq(b)) if ncomp == 1 else (S.mul(4, sq(b)), S.mul(2, sq(b)))), None
        else:
            kw, target, snr_lin = _configure(ctx, how, val)
            chan = LaplacianChannel(**kw)
    requested = []

    def stub(shape_, device):
        requested.append(tuple(shape_))
        return torch.randn(tuple(shape_))

    chan._get_laplacian_noise = stub  # callee contract instead of the callee body (modular step)
    out = ctx.call(chan.forward, x)
    ctx.ensure("returns", out.ok, note=repr(out.exc) if not out.ok else "")
    if not out.ok:
        return
    y = out.value
    ctx.ensure("shape_dtype_preserved", SP.shape_is(y, shape) and y.dtype == x.dtype)
    ctx.ensure("input_unmodified", out.unmodified)
    ctx.ensure("one_unit_laplacian_per_real_component", all(r == tuple(shape) for r in requested) and len(requested) >= 1)
    xr, xi = PC(x)
    noise_algebra(ctx, chan.forward, (x,), {}, y, (xr, xi), list(ctx.rng_draws), target=target, snr_lin=snr_lin, signal_power=mean_abs2(xr, xi), var_override=2)


# ================================================================================================ bounded stand-ins (native, deterministic)
def _bounded(spec, cfg, name, fail, evals, detail, t0):
    import time

    r = ObResult(prop=spec.prop, ob=f"{spec.id}/{name}", config=str(cfg), function=spec.function, engine="standin", backend="native", kind="bounded")
    r.verdict = "discharged" if fail is None else "refuted"
    r.paths = evals
    r.witness = fail
    r.replay_confirmed = None if fail is None else True
    r.detail = "bounded: " + detail
    r.wall_s = round(time.time() - t0, 2)
    return r


DECADES = (1e-3, 1e-2, 1e-1, 1.0, 1e1, 1e2, 1e3)


def _seed_cfgs(tier):
    return [Cfg("same_seed", ch, kind) for ch in ("awgn", "laplacian", "nonlinear", "fading", "add_noise_for_snr") for kind in ("real", "complex")]


@obligation("C07.same_seed_scaling", function=FA + ":_apply_noise; " + FA + ":AWGNChannel.forward; " + FL + "forward; " + FA + ":NonlinearChannel.forward; " + FA + ":FlatFadingChannel.forward; " + FU + ":add_noise_for_snr", configs=_seed_cfgs, kind="custom", engine="standin")
def same_seed_scaling(spec, cfg, tier, seed):
    """noise(seed, P2) == sqrt(P2/P1) * noise(seed, P1) over six decades of P (and of the signal power for the SNR parameterisation):
    the noise scale is exactly the square root of the configured power.  Deterministic (same torch seed), float64 inputs, rtol 2e-4 (the library rounds the noise scale to float32)."""
    import time

    from kaira.channels import analog as A
    from kaira.utils.snr import add_noise_for_snr

    t0 = time.time()
    _, ch, kind = cfg
    g = torch.Generator().manual_seed(1234 + seed)
    n = 64 if tier == "quick" else 4096
    # float64 inputs: the noise is observed as channel(x) - base, and that subtraction would cost eps32 * |x| in float32
    x = torch.randn(2, n, generator=g, dtype=torch.float64)
    if kind == "complex":
        x = torch.complex(x, torch.randn(2, n, generator=g, dtype=torch.float64))
    h = torch.complex(torch.randn(2, n, generator=g, dtype=torch.float64), torch.randn(2, n, generator=g, dtype=torch.float64))

    def noise_P(P, s=1234):
        torch.manual_seed(s)
        if ch == "awgn":
            return A.AWGNChannel(avg_noise_power=P)(x) - x
        if ch == "laplacian":
            return A.LaplacianChannel(avg_noise_power=P)(x) - x
        if ch == "nonlinear":
            return A.NonlinearChannel(_cubic if kind == "real" else _square, add_noise=True, avg_noise_power=P)(x) - (_cubic(x) if kind == "real" else _square(x))
        if ch == "fading":
            return A.FlatFadingChannel("rayleigh", 4, avg_noise_power=P)(x, csi=h) - h * x
        return add_noise_for_snr(x * (P**0.5), 10.0)[1]  # signal power scales with P at fixed SNR

    def noise_S(sdb, s=1234):
        torch.manual_seed(s)
        if ch == "awgn":
            return A.AWGNChannel(snr_db=sdb)(x) - x
        if ch == "laplacian":
            return A.LaplacianChannel(snr_db=sdb)(x) - x
        if ch == "nonlinear":
            return A.NonlinearChannel(_cubic if kind == "real" else _square, add_noise=True, snr_db=sdb)(x) - (_cubic(x) if kind == "real" else _square(x))
        if ch == "fading":
            return A.FlatFadingChannel("rayleigh", 4, snr_db=sdb)(x, csi=h) - h * x
        return add_noise_for_snr(x, sdb)[1]

    fail, evals = None, 0
    ref = noise_P(1.0)
    for P in DECADES:
        got = noise_P(P)
        evals += 1
        want = ref * (P**0.5)
        if not torch.allclose(got, want, rtol=2e-4, atol=1e-6 * (P**0.5)):
            fail = {"P1": 1.0, "P2": P, "max_abs_dev": float((got - want).abs().max()), "expected_scale": P**0.5, "observed_scale": float((got.abs().mean() / ref.abs().mean()))}
            break
    fail2 = None
    ref = noise_S(0.0)
    for sdb in (-20.0, -10.0, 0.0, 10.0, 20.0, 30.0, 40.0):
        got = noise_S(sdb)
        evals += 1
        sc = 10 ** (-sdb / 20.0)
        want = ref * sc
        if not torch.allclose(got, want, rtol=2e-4, atol=1e-6 * sc):
            fail2 = {"snr1_db": 0.0, "snr2_db": sdb, "expected_scale": sc, "observed_scale": float((got.abs().mean() / ref.abs().mean()))}
            break
    d = f"same-seed relation on a (2,{n}) {kind} input, P in 1e-3..1e3 (7 values), snr in -20..40 dB (7 values); the unit-variance law of torch.randn/rand is assumed (DESIGN 4.2), not sampled"
    return [_bounded(spec, cfg, "noise_scales_with_sqrt_P", fail, evals, d, t0), _bounded(spec, cfg, "noise_scales_with_10^(-snr/20)", fail2, evals, d, t0)]


def _grid_cfgs(tier):
    return [Cfg("snr_grid", f) for f in ("db_to_linear", "linear_to_db", "to_noise_power", "noise_power_to_snr", "calculate_snr", "metric", "standard_metrics", "zero_and_edge")]


@obligation("C07.snr_grid", function=FU + ":snr_db_to_linear; " + FU + ":snr_linear_to_db; " + FU + ":snr_to_noise_power; " + FU + ":noise_power_to_snr; " + FU + ":calculate_snr; " + FM + ":SignalToNoiseRatio.forward; kaira/benchmarks/metrics.py:StandardMetrics.signal_to_noise_ratio", configs=_grid_cfgs, kind="custom", engine="standin")
def snr_grid(spec, cfg, tier, seed):
    """exact evaluation of the conversion / measurement functions on a dense grid against the textbook formulas evaluated with mpmath
    (float inputs, scalars and tensors).  Tolerances: float32 results 2e-6 relative (5e-5 dB), the metric's +eps as stated in C07.snr_eps_lemma."""
    import time

    import mpmath as mp
    from kaira.benchmarks.metrics import StandardMetrics
    from kaira.metrics.signal.snr import SignalToNoiseRatio
    from kaira.utils import snr as U

    t0 = time.time()
    f = cfg[1]
    step = 0.5 if tier == "quick" else 0.05
    dbs = [-20.0 + step * i for i in range(int(60 / step) + 1)]
    fail, evals = None, 0

    def bad(got, want, rel, abs_=0.0):
        return not (abs(float(got) - float(want)) <= rel * abs(float(want)) + abs_)

    if f == "db_to_linear":
        t = U.snr_db_to_linear(torch.tensor(dbs, dtype=torch.float64))
        for s, v in zip(dbs, t.tolist()):
            evals += 2
            want = mp.mpf(10) ** (mp.mpf(s) / 10)
            if bad(v, want, 1e-12) or bad(U.snr_db_to_linear(float(s)), want, 2e-6):
                fail = {"snr_db": s, "tensor_result": v, "float_result": float(U.snr_db_to_linear(float(s))), "required": float(want)}
                break
    elif f == "linear_to_db":
        lins = [10 ** (s / 10) for s in dbs]
        t = U.snr_linear_to_db(torch.tensor(lins, dtype=torch.float64))
        for l, v in zip(lins, t.tolist()):
            evals += 2
            want = 10 * mp.log10(mp.mpf(l))
            if bad(v, want, 1e-12, 1e-12) or bad(U.snr_linear_to_db(float(l)), want, 2e-6, 5e-5):
                fail = {"snr_linear": l, "tensor_result": v, "required": float(want)}
                break
    elif f == "to_noise_power":
        for ps in DECADES:
            for s in dbs[:: (1 if tier == "thorough" else 4)]:
                evals += 2
                want = mp.mpf(ps) / mp.mpf(10) ** (mp.mpf(s) / 10)
                a = U.snr_to_noise_power(ps, s)
                b = U.snr_to_noise_power(torch.tensor([ps, ps]), torch.tensor(s))
                if bad(a, want, 2e-6) or bad(b[1], want, 2e-6):
                    fail = {"signal_power": ps, "snr_db": s, "float_result": float(a), "tensor_result": float(b[1]), "required": float(want)}
                    break
            if fail:
                break
    elif f == "noise_power_to_snr":
        for ps in DECADES:
            for pn in DECADES:
                evals += 2
                want = 10 * mp.log10(mp.mpf(ps) / mp.mpf(pn))
                a = U.noise_power_to_snr(ps, pn)
                b = U.noise_power_to_snr(torch.tensor([ps, ps], dtype=torch.float64), torch.tensor([pn, pn], dtype=torch.float64))
                if bad(a, want, 2e-6, 5e-5) or bad(b[0], want, 1e-12, 1e-12):
                    fail = {"signal_power": ps, "noise_power": pn, "float_result": float(a), "required": float(want)}
                    break
            if fail:
                break
    elif f in ("calculate_snr", "metric", "standard_metrics"):
        g = torch.Generator().manual_seed(77 + seed)
        for kind in ("real", "complex"):
            for ps in DECADES:
                for pn in (1e-3, 1e-1, 1.0, 1e2):
                    x = torch.randn(3, 16, generator=g, dtype=torch.float64)
                    nz = torch.randn(3, 16, generator=g, dtype=torch.float64)
                    if kind == "complex":
                        x = torch.complex(x, torch.randn(3, 16, generator=g, dtype=torch.float64))
                        nz = torch.complex(nz, torch.randn(3, 16, generator=g, dtype=torch.float64))
                    x = x * (ps / float((x.abs() ** 2).mean())) ** 0.5
                    nz = nz * (pn / float((nz.abs() ** 2).mean())) ** 0.5
                    want = 10 * mp.log10(mp.mpf(float((x.abs() ** 2).mean())) / mp.mpf(float((nz.abs() ** 2).mean())))
                    evals += 1
                    if f == "calculate_snr":
                        got = U.calculate_snr(x, x + nz)
                        tol = 1e-9
                    elif f == "metric":
                        rows = SignalToNoiseRatio()(x, x + nz)
                        got = None
                        for i in range(3):
                            w = 10 * mp.log10(mp.mpf(float((x[i].abs() ** 2).mean())) / mp.mpf(float((nz[i].abs() ** 2).mean())))
                            if bad(rows[i], w, 0, 1e-3 * max(1.0, 1e-3 / float((nz[i].abs() ** 2).mean()))):
                                got, want = rows[i], w
                        if got is None:
                            continue
                        tol = 0
                    else:
                        got = StandardMetrics.signal_to_noise_ratio(x, nz)
                        tol = 1e-9
                    if bad(got, want, 0, tol if tol else 0.0):
                        fail = {"kind": kind, "signal_power": ps, "noise_power": pn, "result_db": float(got), "required_db": float(want)}
                        break
                if fail:
                    break
            if fail:
                break
    else:
        checks = {
            "linear_to_db(0) == -inf": float(U.snr_linear_to_db(0.0)) == float("-inf"),
            "linear_to_db([0, 1]) == [-inf, 0]": U.snr_linear_to_db(torch.tensor([0.0, 1.0])).tolist() == [float("-inf"), 0.0],
            "db_to_linear(0) == 1": float(U.snr_db_to_linear(0.0)) == 1.0,
            "db_to_linear(10) == 10": abs(float(U.snr_db_to_linear(10.0)) - 10.0) < 1e-5,
            "to_noise_power(1, 0) == 1": float(U.snr_to_noise_power(1.0, 0.0)) == 1.0,
            "noise_power_to_snr(2, 2) == 0": float(U.noise_power_to_snr(2.0, 2.0)) == 0.0,
            "metric of a noiseless signal is +inf": float(SignalToNoiseRatio()(torch.ones(4), torch.ones(4))) == float("inf"),
            "StandardMetrics with zero noise is +inf": StandardMetrics.signal_to_noise_ratio(torch.ones(4), torch.zeros(4)) == float("inf"),
        }
        evals = len(checks)
        badk = [k for k, v in checks.items() if not v]
        fail = {"failed": badk} if badk else None
    d = f"dense grid -20..40 dB step {step}, powers 1e-3..1e3, scalars and tensors, against mpmath; {evals} evaluations"
    return [_bounded(spec, cfg, "textbook_value_on_grid", fail, evals, d, t0)]
