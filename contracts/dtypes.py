"""Input REPRESENTATION sweep (bounded stand-in, never counted as proved).

The symbolic contracts of C01/C02/C04/C05/C06/C08/C12/C16 are discharged for payloads of the default dtype (float32 /
complex64); the engine treats integer payloads as mathematical integers, so it cannot see wrap-around or truncation of uint8 /
int / bool / float64 inputs.  The properties quantify over "every input"; the dtype in which a bit vector, an LLR vector or a
received symbol is carried is part of the input.  This module states ONE clause per (function, dtype):

    if f returns for x carried in dtype dt, the result equals (numerically) the result for x carried in the default dtype.

A rejection (TypeError / RuntimeError / ValueError / NotImplementedError raised for a dtype) is not a wrong answer and is not a
violation; it is counted and reported in the evidence detail.  Every case is evaluated natively on the real code; inputs are
seeded per (config, seed); bound = the listed cases.
"""
from __future__ import annotations

import random
import time
import zlib

import torch

from vk.harness import ObResult

BIT_DTYPES = (torch.int64, torch.int32, torch.uint8, torch.bool, torch.float64, torch.float16, "strided_view")
REAL_DTYPES = (torch.float64,)
REJECT = (TypeError, RuntimeError, ValueError, NotImplementedError, IndexError)


def _flat(v):
    if isinstance(v, (tuple, list)):
        out = []
        for u in v:
            out += _flat(u)
        return out
    if isinstance(v, torch.Tensor):
        return [v]
    return [torch.tensor(v)] if isinstance(v, (int, float, bool, complex)) else []


def same(a, b, rtol=1e-4, atol=1e-5):
    fa, fb = _flat(a), _flat(b)
    if len(fa) != len(fb):
        return False, f"{len(fa)} vs {len(fb)} result tensors"
    for x, y in zip(fa, fb):
        if tuple(x.shape) != tuple(y.shape):
            return False, f"shape {tuple(x.shape)} vs {tuple(y.shape)}"
        cx = x.detach().to(torch.complex128) if (x.is_complex() or y.is_complex()) else x.detach().to(torch.float64)
        cy = y.detach().to(cx.dtype)
        if not torch.allclose(cx, cy, rtol=rtol, atol=atol, equal_nan=True):
            d = (cx - cy).abs()
            i = int(torch.argmax(d.reshape(-1))) if d.numel() else 0
            return False, f"values differ at flat position {i}: {cx.reshape(-1)[i].item()!r} vs {cy.reshape(-1)[i].item()!r}"
    return True, ""


STRIDED = "strided_view"  # pseudo-carrier: the same values handed over as a non-contiguous view (every second element of a buffer)


def strided_view(x):
    if not isinstance(x, torch.Tensor) or x.dim() == 0:
        return x
    big = torch.zeros(*x.shape[:-1], 2 * x.shape[-1], dtype=x.dtype)
    big[..., 1::2] = 7  # what sits between the samples must never be read
    big[..., ::2] = x
    v = big[..., ::2]
    assert not v.is_contiguous() or x.shape[-1] <= 1
    return v


def cast(x, dt):
    if isinstance(x, (tuple, list)):
        return type(x)(cast(v, dt) for v in x)
    if not isinstance(x, torch.Tensor):
        return x
    if dt == STRIDED:
        return strided_view(x)
    if x.is_complex():
        return x.to(torch.complex128 if dt == torch.float64 else x.dtype)
    return x.to(dt)


def rng_for(cfg, seed, salt=""):
    return random.Random(zlib.crc32(f"{cfg}|{seed}|{salt}".encode()))


def run(prop, spec, cfg, tier, seed, cases, dtypes, detail):
    """cases: list of (label, factory, args) - factory() returns a fresh callable f; clause per dtype"""
    t0 = time.time()
    fails = {str(dt).replace("torch.", ""): None for dt in dtypes}
    rejected = {k: 0 for k in fails}
    evals = 0
    for label, factory, args in cases:
        try:
            with torch.no_grad():
                ref = factory()(*args)
        except Exception:
            continue  # the default-dtype behaviour is the business of the symbolic contracts
        for dt in dtypes:
            key = str(dt).replace("torch.", "")
            xs = cast(args, dt)
            try:
                with torch.no_grad():
                    out = factory()(*xs)
            except REJECT:
                rejected[key] += 1
                continue
            evals += 1
            ok, why = same(out, ref)
            if not ok and fails[key] is None:
                fails[key] = {"case": label, "dtype": key, "input": [a.tolist() if isinstance(a, torch.Tensor) and a.numel() <= 64 else str(getattr(a, "shape", a)) for a in args], "difference": why}
    res = []
    for key, fail in fails.items():
        r = ObResult(prop=prop, ob=f"{spec.id}/same_result_when_input_is_{key}", config=str(cfg), function=spec.function, engine="standin", backend="native", kind="bounded")
        r.verdict = "discharged" if fail is None else "refuted"
        r.paths = evals
        r.witness = fail
        r.replay_confirmed = None if fail is None else True
        r.detail = f"bounded: {detail}; {len(cases)} case(s) x dtype {key}; rejected (raised, not a wrong answer): {rejected[key]}"
        r.wall_s = round(time.time() - t0, 2)
        res.append(r)
    return res
