"""C05 - noise-free modulation followed by hard demodulation returns the transmitted bits.

Contract on the pair (modulator.forward, demodulator.forward with noise_var=None), per scheme/order/labelling/normalisation:
    forall bits:  demod(mod(bits)) == bits   and   mod(bits).shape == lead + (len(bits)/bits_per_symbol,)
schemes with memory, after reset_state() and in eval():
    DPSK/DBPSK/DQPSK   demod(mod(bits)) == bits[b:]            (the reference symbol's bits are not returned)
    OQPSK              out[2i] == bits[2i]  and  out[2i+1] == bits[2i-1] for i >= 1   (quadrature stream delayed by one symbol)
    pi/4-QPSK          demod(mod(bits)) == bits
The bits are SYMBOLIC (the input domain is finite, the proof is symbolic-exhaustive): the modulator's table lookup becomes an
ITE over the real constellation buffer, the demodulator's nearest-point rule is decided on the exact rationals of the stored
floats.  The DPSK hard decision needs torch.angle (atan2), which the engine does not model: there the bits are concretised by
forking (every bit pattern is one path, the real kernels run on each).

Dependency (frame) obligations - what extends the enumerated lengths (1..3 symbols) to long sequences:
    memoryless:  mod(bits)[i] == mod(bits[group i])[0]       (symbol i is the one-symbol function of bit group i, the same for all i)
                 demod(y)[group i] == demod(y[i:i+1])          for ALL complex y (symbolic reals), i.e. the decision is per symbol
    DPSK:        y[0] == mod(group 0)[0],  y[i] == y[i-1] * mod(group i)[0]       (differential step, same function for every i)
    OQPSK:       re y[i] == re mod(group i)[0],  im y[i] == im mod(group i-1 ++ 00)[1];   demod per symbol as above
    pi/4-QPSK:   y[i] == mod(group i)[0] (i even),  y[i] == mod(00 ++ group i)[1] (i odd);   demod: out[group i] == demod(y[i-1:i+1])[group 1] for odd i
ModulationRegistry.create(name, mode, **options) returns an instance of exactly the class the contract is attached to (ground).
"""
from __future__ import annotations

import random
import time

import numpy as np
import torch

from vk import spec as SP
from vk import sym as S
from vk.harness import ObResult, obligation
from vk.tensor import P, PC

from . import mods
from .codes import Cfg, split_variant

M = "kaira/modulations/"
FN = {
    "bpsk": (M + "psk.py:BPSKModulator.forward", M + "psk.py:BPSKDemodulator.forward"),
    "qpsk": (M + "psk.py:QPSKModulator.forward", M + "psk.py:QPSKDemodulator.forward"),
    "psk": (M + "psk.py:PSKModulator.forward", M + "psk.py:PSKDemodulator.forward"),
    "qam": (M + "qam.py:QAMModulator.forward", M + "qam.py:QAMDemodulator.forward"),
    "pam": (M + "pam.py:PAMModulator.forward", M + "pam.py:PAMDemodulator.forward; " + M + "pam.py:PAMDemodulator._hard_decision"),
    "identity": (M + "identity.py:IdentityModulator.forward", M + "identity.py:IdentityDemodulator.forward"),
    "dpsk": (M + "dpsk.py:DPSKModulator.forward; " + M + "dpsk.py:DPSKModulator.reset_state", M + "dpsk.py:DPSKDemodulator.forward"),
    "oqpsk": (M + "oqpsk.py:OQPSKModulator.forward; " + M + "oqpsk.py:OQPSKModulator.reset_state", M + "oqpsk.py:OQPSKDemodulator.forward"),
    "pi4qpsk": (M + "pi4qpsk.py:Pi4QPSKModulator.forward; " + M + "pi4qpsk.py:Pi4QPSKModulator.reset_state", M + "pi4qpsk.py:Pi4QPSKDemodulator.forward; " + M + "pi4qpsk.py:Pi4QPSKDemodulator.reset_state"),
}
MEMLESS = ("bpsk", "qpsk", "psk", "qam", "pam", "identity")
F_MEMLESS = "; ".join(f for k in MEMLESS for f in FN[k])
F_DPSK = "; ".join(FN["dpsk"])
F_OQPSK = "; ".join(FN["oqpsk"])
F_PI4 = "; ".join(FN["pi4qpsk"])


def fresh_pair(cfg):
    """a fresh (modulator, demodulator) from the real constructors, state reset, evaluation mode"""
    mod, dem = mods.build(cfg)
    if cfg[0] == "pi4qpsk":
        # the demodulator is told the labelling when its constructor has such an option (it has none on the pinned tree)
        import inspect

        from kaira.modulations.pi4qpsk import Pi4QPSKDemodulator

        if "gray_coded" in inspect.signature(Pi4QPSKDemodulator.__init__).parameters:
            dem = Pi4QPSKDemodulator(gray_coded=cfg[1] == "gray")
    mod.eval()
    dem.eval()
    mod.reset_state()
    dem.reset_state()
    return mod, dem


def npoints(cfg):
    if cfg[0] == "identity":
        return 2
    return mods.points(cfg)


def memoryless(tier, max_points=None):
    out = [c for c in mods.catalogue(tier, families=("bpsk", "qpsk", "psk", "qam", "pam"), max_points=max_points)] + [Cfg("identity")]
    return out


LAYOUTS = {"1d": (), "B1": (1,), "B2": (2,)}


def _variants(cfgs, names):
    return [Cfg(*c, v) for c in cfgs for v in names]


def _rt_cfgs(tier):
    out = []
    for c in memoryless(tier, max_points=64 if tier == "quick" else None):  # 32/64-point schemes: one and two symbols, all bit values
        n = npoints(c)
        if n <= 16:
            names = ["1d.1", "1d.2", "1d.3", "B1.1", "B2.2"] + (["B2.3"] if tier == "thorough" else [])
        elif n <= 64:
            names = ["1d.1", "B1.1"] if tier == "quick" else ["1d.1", "1d.2", "B2.1"]
        else:
            names = ["1d.1", "B1.1"]
        out += _variants([c], names)
    return out


def _parse(vcfg):
    cfg, v = split_variant(vcfg)
    lay, n = v.split(".")[:2]
    return cfg, LAYOUTS[lay], int(n)


def pair_for(vcfg):
    """variant suffix ".u": the pair has been USED in training mode (state moved off its initial value) and is then put in
    eval() and reset - the property's 'after a state reset' must hold whatever the objects did before"""
    cfg, v = split_variant(vcfg)
    if not v.endswith(".u"):
        return fresh_pair(cfg)
    mod, dem = fresh_pair(cfg)
    mod.train()
    dem.train()
    b = getattr(mod, "bits_per_symbol", 2)
    # 3 symbols (odd: pi/4-QPSK ends on the rotated constellation), batched, so that the batched state update is the one that
    # ran; the pattern is chosen among a few so that the carried state really left its initial value (cover clause below)
    moved = False
    for pat in ([1] * b, [0] * (b - 1) + [1], [1] + [0] * (b - 1)):
        prior = torch.tensor(([1, 0] * b)[: 2 * b] + pat, dtype=torch.float32).reshape(1, -1)
        with torch.no_grad():
            dem(mod(prior))
        moved = not bool(_state_is_reset(mod))
        if moved:
            break
    mod.eval()
    dem.eval()
    mod.reset_state()
    dem.reset_state()
    mod._vk_state_moved = moved
    return mod, dem


def _eq_complex(a, b):
    (ar, ai), (br, bi) = PC(a), PC(b)
    if ar.shape != br.shape:
        return False
    return S.land(SP.all_eq(ar, br), SP.all_eq(ai, bi))


# ------------------------------------------------------------------------------------------------ memoryless schemes
@obligation("C05.roundtrip", function=F_MEMLESS, configs=_rt_cfgs, max_paths=64, timeout_ms=60000, crosscheck=2)
def roundtrip(ctx, vcfg):
    cfg, lead, n = _parse(vcfg)
    mod, dem = fresh_pair(cfg)
    b = mod.bits_per_symbol
    bits = ctx.bits("bits", lead + (n * b,))
    y = ctx.call(mod.forward, bits)
    ctx.ensure("modulates", y.ok, note=repr(y.exc) if not y.ok else "")
    if not y.ok:
        return
    ctx.ensure("symbol_count", SP.shape_is(y.value, lead + (n,)), note=f"symbols {tuple(y.value.shape)}, bits {tuple(bits.shape)}, bits_per_symbol {b}")
    out = ctx.call(dem.forward, y.value)
    ctx.ensure("demodulates", out.ok, note=repr(out.exc) if not out.ok else "")
    if not out.ok:
        return
    ctx.ensure("returns_the_bits", SP.shape_is(out.value, bits.shape) and SP.all_eq(P(out.value), P(bits)))
    ctx.ensure("inputs_unmodified", S.land(y.unmodified, out.unmodified))


def _dep_cfgs(tier):
    out = []
    for c in memoryless(tier):
        n = npoints(c)
        names = ["1d.3", "B2.2"] if n <= 16 else (["1d.2", "B1.2"] if n <= 64 else ["1d.2"])
        out += _variants([c], names)
    return out


def _groups(bits_payload, lead, n, b):
    """bit group i as a payload array of shape lead + (b,)"""
    return [bits_payload[..., i * b : (i + 1) * b] for i in range(n)]


@obligation("C05.symbol_depends_on_its_bit_group", function="; ".join(FN[k][0] for k in MEMLESS), configs=_dep_cfgs, max_paths=64, timeout_ms=60000, crosscheck=2)
def symbol_dependency(ctx, vcfg):
    """mod(bits)[..., i] == mod(bits[..., group i])[..., 0]: symbol i is a function of bit group i alone and it is the same
    one-symbol function for every position i (so the one-symbol round trip extends to any length)"""
    cfg, lead, n = _parse(vcfg)
    mod, _ = fresh_pair(cfg)
    b = mod.bits_per_symbol
    bits = ctx.bits("bits", lead + (n * b,))
    y = ctx.call(mod.forward, bits)
    ctx.ensure("modulates", y.ok, note=repr(y.exc) if not y.ok else "")
    if not y.ok:
        return
    yr, yi = PC(y.value)
    for i, g in enumerate(_groups(P(bits), lead, n, b)):
        yi1 = ctx.call(mod.forward, ctx.tensor(g, bits.dtype))
        ok = yi1.ok and SP.shape_is(yi1.value, lead + (1,))
        if ok:
            r1, i1 = PC(yi1.value)
            ok = S.land(SP.all_eq(yr[..., i : i + 1], r1), SP.all_eq(yi[..., i : i + 1], i1))
        ctx.ensure("symbol_i_is_the_one_symbol_map_of_group_i", ok)


def _dec_cfgs(tier):
    out = []
    for c in memoryless(tier):
        n = npoints(c)
        if n <= 16:
            names = ["1d.3", "B2.2"]
        elif n <= 64:
            names = ["1d.2"]
        else:
            continue  # 256 points: the per-symbol structure is the same code path as 4/16/64-QAM; the term size is out of budget
        out += _variants([c], names)
    out += _variants(mods.catalogue(tier, families=("oqpsk",)), ["1d.3", "B2.2"])  # the OQPSK demodulator itself has no memory
    return out


@obligation("C05.decision_is_per_symbol", function="; ".join(FN[k][1] for k in MEMLESS + ("oqpsk",)), configs=_dec_cfgs, max_paths=64, timeout_ms=60000, crosscheck=2)
def decision_dependency(ctx, vcfg):
    """for ALL received values y (symbolic reals, not only constellation points): demod(y)[..., group i] == demod(y[..., i:i+1])"""
    cfg, lead, n = _parse(vcfg)
    _, dem = fresh_pair(cfg)
    b = dem.bits_per_symbol
    y = ctx.complexes("y", lead + (n,)) if cfg[0] != "identity" else ctx.reals("y", lead + (n,))
    out = ctx.call(dem.forward, y)
    ctx.ensure("demodulates", out.ok, note=repr(out.exc) if not out.ok else "")
    if not out.ok:
        return
    ctx.ensure("bit_count", SP.shape_is(out.value, lead + (n * b,)))
    if not SP.shape_is(out.value, lead + (n * b,)):
        return
    o = P(out.value)
    if cfg[0] == "identity":
        parts = [(P(y)[..., i : i + 1], None) for i in range(n)]
    else:
        yr, yi = PC(y)
        parts = [(yr[..., i : i + 1], yi[..., i : i + 1]) for i in range(n)]
    for i, (pr, pi) in enumerate(parts):
        if pi is None:
            yi1 = ctx.tensor(pr, y.dtype)
        else:
            yi1 = _complex_tensor(ctx, pr, pi)
        o1 = ctx.call(dem.forward, yi1)
        ok = o1.ok and SP.shape_is(o1.value, lead + (b,))
        if ok:
            ok = SP.all_eq(o[..., i * b : (i + 1) * b], P(o1.value))
        ctx.ensure("group_i_is_the_one_symbol_decision_on_y_i", ok)


def _complex_tensor(ctx, re, im, dtype=torch.complex64):
    from vk.tensor import SymTensor

    re, im = np.asarray(re, dtype=object), np.asarray(im, dtype=object)
    if ctx.mode == "sym":
        return SymTensor(re.copy(), im.copy(), dtype)
    f = lambda a: torch.tensor([float(v) for v in a.reshape(-1)], dtype=torch.float64).reshape(a.shape).to(torch.float32)
    return torch.complex(f(re), f(im))


# ================================================================================================ schemes with memory
def _concretise(ctx, bits):
    """fork until every bit is concrete (int() of a symbolic bit is a decision point; all feasible values are explored)"""
    p = P(bits)
    vals = np.empty(p.shape, dtype=object)
    for idx in np.ndindex(*p.shape):
        vals[idx] = int(p[idx])
    return ctx.tensor(vals, bits.dtype), vals


def _dpsk_cfgs(tier):
    out = []
    for c in mods.catalogue(tier, families=("dpsk", "dbpsk", "dqpsk"), max_points=16):
        n = npoints(c)
        if n <= 4:
            names = ["1d.2", "1d.3", "B1.2", "B2.2"] + (["B2.3", "1d.4"] if tier == "thorough" else [])
        elif n == 8:
            names = ["1d.2", "B1.2"] + (["1d.3", "B2.2"] if tier == "thorough" else [])
        else:
            names = ["1d.2"] + (["B1.2", "1d.3"] if tier == "thorough" else [])
        out += _variants([c], names + [names[-1] + ".u"])
    return out


@obligation("C05.dpsk_roundtrip", function=F_DPSK, configs=_dpsk_cfgs, max_paths=5000, timeout_ms=20000, crosscheck=2)
def dpsk_roundtrip(ctx, vcfg):
    """all ordered pairs / triples of symbols: every bit pattern is one path (torch.angle runs on concrete data)"""
    cfg, lead, n = _parse(vcfg)
    mod, dem = pair_for(vcfg)
    if hasattr(mod, "_vk_state_moved"):
        ctx.ensure("cover.state_had_left_its_initial_value_before_reset", mod._vk_state_moved)
    b = mod.bits_per_symbol
    sbits = ctx.bits("bits", lead + (n * b,))
    bits, vals = _concretise(ctx, sbits)
    y = ctx.call(mod.forward, bits)
    ctx.ensure("modulates", y.ok, note=repr(y.exc) if not y.ok else "")
    if not y.ok:
        return
    ctx.ensure("symbol_count", SP.shape_is(y.value, lead + (n,)), note=f"symbols {tuple(y.value.shape)}, bits {tuple(bits.shape)}, bits_per_symbol {b}")
    out = ctx.call(dem.forward, y.value)
    ctx.ensure("demodulates", out.ok, note=repr(out.exc) if not out.ok else "")
    if not out.ok:
        return
    ctx.ensure("returns_the_bits_after_the_reference_symbol", SP.shape_is(out.value, lead + ((n - 1) * b,)) and SP.all_eq(P(out.value), vals[..., b:]))
    ctx.ensure("inputs_unmodified", S.land(y.unmodified, out.unmodified))
    ctx.ensure("state_unchanged_in_eval", _state_is_reset(mod))


def _state_is_reset(mod):
    """eval(): forward must not move the carry-over state (it is what reset_state() set)"""
    with torch._C.DisableTorchFunctionSubclass():
        if hasattr(mod, "_phase_memory"):
            (r, i) = PC(mod._phase_memory)
            return S.land(SP.all_eq(r.reshape(-1), [1]), SP.all_eq(i.reshape(-1), [0]))
        if hasattr(mod, "_delayed_quad"):
            return SP.all_eq(P(mod._delayed_quad).reshape(-1), [0])
        if hasattr(mod, "_use_rotated"):
            return SP.all_eq(P(mod._use_rotated).reshape(-1), [False])
    return True


def _cmul(ar, ai, br, bi):
    re = np.empty(ar.shape, dtype=object)
    im = np.empty(ar.shape, dtype=object)
    for idx in np.ndindex(*ar.shape):
        re[idx] = S.sub(S.mul(ar[idx], br[idx]), S.mul(ai[idx], bi[idx]))
        im[idx] = S.add(S.mul(ar[idx], bi[idx]), S.mul(ai[idx], br[idx]))
    return re, im


from fractions import Fraction  # noqa: E402

TOL = dict(rtol=Fraction(1, 10**6), atol=Fraction(1, 10**6))


def _dpsk_step_cfgs(tier):
    out = []
    for c in mods.catalogue(tier, families=("dpsk", "dbpsk", "dqpsk"), max_points=16):
        out += _variants([c], ["1d.3", "B2.2"] + (["1d.1"] if npoints(c) > 2 else []))
    return out


@obligation("C05.dpsk_differential_step", function=FN["dpsk"][0], configs=_dpsk_step_cfgs, max_paths=64, timeout_ms=60000, crosscheck=2)
def dpsk_step(ctx, vcfg):
    """symbolic bits: y[0] == mod(group 0)[0] (reference 1+0j), y[i] == y[i-1] * mod(group i)[0]: symbol i depends on groups <= i
    through the previous symbol only, by the same step for every i (extends pairs/triples to long sequences)"""
    cfg, lead, n = _parse(vcfg)
    mod, _ = fresh_pair(cfg)
    b = mod.bits_per_symbol
    bits = ctx.bits("bits", lead + (n * b,))
    y = ctx.call(mod.forward, bits)
    ctx.ensure("modulates", y.ok, note=repr(y.exc) if not y.ok else "")
    if not y.ok:
        return
    ok = SP.shape_is(y.value, lead + (n,))
    ctx.ensure("symbol_count", ok, note=f"symbols {tuple(y.value.shape)}, bits {tuple(bits.shape)}, bits_per_symbol {b}")
    if not ok:
        return
    yr, yi = PC(y.value)
    if n * b == 1:
        return  # a single bit is read as a symbol index by DPSKModulator.forward (same value for order 2); nothing to compare
    for i, g in enumerate(_groups(P(bits), lead, n, b)):
        if b == 1:
            # a one-bit input is interpreted as a symbol index by the real forward: feed the group twice and use the first symbol
            g = np.concatenate([g, g], axis=-1)
        s = ctx.call(mod.forward, ctx.tensor(g, bits.dtype))
        if not s.ok:
            ctx.ensure("differential_step", False, note=repr(s.exc))
            continue
        sr, si = PC(s.value)
        sr, si = sr[..., 0], si[..., 0]
        if i == 0:
            ctx.ensure("first_symbol_is_reference_times_shift", S.land(SP.all_close(yr[..., 0], sr, **TOL), SP.all_close(yi[..., 0], si, **TOL)))
        else:
            pr, pi = _cmul(yr[..., i - 1], yi[..., i - 1], sr, si)
            ctx.ensure("differential_step", S.land(SP.all_close(yr[..., i], pr, **TOL), SP.all_close(yi[..., i], pi, **TOL)))
    ctx.ensure("state_unchanged_in_eval", _state_is_reset(mod))


# ------------------------------------------------------------------------------------------------ OQPSK
def _oq_cfgs(tier):
    return _variants(mods.catalogue(tier, families=("oqpsk",)), ["1d.1", "1d.2", "1d.3", "B1.2", "B2.3", "1d.3.u", "B2.3.u"])


@obligation("C05.oqpsk_roundtrip", function=F_OQPSK, configs=_oq_cfgs, max_paths=64, timeout_ms=60000, crosscheck=2)
def oqpsk_roundtrip(ctx, vcfg):
    cfg, lead, n = _parse(vcfg)
    mod, dem = pair_for(vcfg)
    if hasattr(mod, "_vk_state_moved"):
        ctx.ensure("cover.state_had_left_its_initial_value_before_reset", mod._vk_state_moved)
    bits = ctx.bits("bits", lead + (2 * n,))
    y = ctx.call(mod.forward, bits)
    ctx.ensure("modulates", y.ok, note=repr(y.exc) if not y.ok else "")
    if not y.ok:
        return
    ctx.ensure("symbol_count", SP.shape_is(y.value, lead + (n,)), note=f"symbols {tuple(y.value.shape)}, bits {tuple(bits.shape)}")
    out = ctx.call(dem.forward, y.value)
    ctx.ensure("demodulates", out.ok, note=repr(out.exc) if not out.ok else "")
    if not out.ok:
        return
    ok = SP.shape_is(out.value, lead + (2 * n,))
    ctx.ensure("bit_count", ok)
    if not ok:
        return
    o, x = P(out.value), P(bits)
    ctx.ensure("in_phase_stream_equal", SP.all_eq(o[..., 0::2], x[..., 0::2]))
    if n > 1:
        ctx.ensure("quadrature_stream_delayed_by_one_symbol", SP.all_eq(o[..., 3::2], x[..., 1:-2:2]))
    ctx.ensure("inputs_unmodified", S.land(y.unmodified, out.unmodified))
    ctx.ensure("state_unchanged_in_eval", _state_is_reset(mod))


@obligation("C05.oqpsk_offset_structure", function=FN["oqpsk"][0], configs=lambda tier: _variants(mods.catalogue(tier, families=("oqpsk",)), ["1d.3", "B2.3"]), max_paths=64, timeout_ms=60000, crosscheck=2)
def oqpsk_structure(ctx, vcfg):
    """re y[i] == re mod(group i)[0];  im y[i] == im mod(group i-1 ++ 00)[1]  (the same two one-symbol maps at every position)"""
    cfg, lead, n = _parse(vcfg)
    mod, _ = fresh_pair(cfg)
    bits = ctx.bits("bits", lead + (2 * n,))
    y = ctx.call(mod.forward, bits)
    ctx.ensure("modulates", y.ok and SP.shape_is(y.value, lead + (n,)), note=repr(y.exc) if not y.ok else "")
    if not (y.ok and SP.shape_is(y.value, lead + (n,))):
        return
    yr, yi = PC(y.value)
    groups = _groups(P(bits), lead, n, 2)
    zeros = np.zeros(lead + (2,), dtype=object)
    for i, g in enumerate(groups):
        s = ctx.call(mod.forward, ctx.tensor(g, bits.dtype))
        ctx.ensure("in_phase_of_symbol_i_from_group_i", s.ok and SP.all_eq(yr[..., i], PC(s.value)[0][..., 0]))
        if i >= 1:
            s2 = ctx.call(mod.forward, ctx.tensor(np.concatenate([groups[i - 1], zeros], axis=-1), bits.dtype))
            ctx.ensure("quadrature_of_symbol_i_from_group_i_minus_1", s2.ok and SP.all_eq(yi[..., i], PC(s2.value)[1][..., 1]))


# ------------------------------------------------------------------------------------------------ pi/4-QPSK
def _pi4_cfgs(tier):
    return _variants(mods.catalogue(tier, families=("pi4qpsk",)), ["1d.1", "1d.2", "1d.3", "B1.1", "B1.2", "B2.3", "B1.3.u", "B2.3.u"])


@obligation("C05.pi4qpsk_roundtrip", function=F_PI4, configs=_pi4_cfgs, max_paths=256, timeout_ms=60000, crosscheck=2)
def pi4_roundtrip(ctx, vcfg):
    cfg, lead, n = _parse(vcfg)
    mod, dem = pair_for(vcfg)
    if hasattr(mod, "_vk_state_moved"):
        ctx.ensure("cover.state_had_left_its_initial_value_before_reset", mod._vk_state_moved)
    bits = ctx.bits("bits", lead + (2 * n,))
    y = ctx.call(mod.forward, bits)
    ctx.ensure("modulates", y.ok, note=repr(y.exc) if not y.ok else "")
    if not y.ok:
        return
    ctx.ensure("symbol_count", SP.shape_is(y.value, lead + (n,)), note=f"symbols {tuple(y.value.shape)}, bits {tuple(bits.shape)}, bits_per_symbol 2")
    out = ctx.call(dem.forward, y.value)
    ctx.ensure("demodulates", out.ok, note=repr(out.exc) if not out.ok else "")
    if not out.ok:
        return
    ctx.ensure("returns_the_bits", SP.shape_is(out.value, bits.shape) and SP.all_eq(P(out.value), P(bits)), note=f"demodulator output {tuple(out.value.shape)} {out.value.dtype}")
    ctx.ensure("inputs_unmodified", S.land(y.unmodified, out.unmodified))
    ctx.ensure("state_unchanged_in_eval", S.land(_state_is_reset(mod), _state_is_reset(dem)))


@obligation("C05.pi4qpsk_alternation", function=FN["pi4qpsk"][0], configs=lambda tier: _variants(mods.catalogue(tier, families=("pi4qpsk",)), ["1d.3", "B2.3"]), max_paths=64, timeout_ms=60000, crosscheck=2)
def pi4_structure(ctx, vcfg):
    """y[i] == mod(group i)[0] for even i,  y[i] == mod(00 ++ group i)[1] for odd i (two one-symbol maps, alternating)"""
    cfg, lead, n = _parse(vcfg)
    mod, _ = fresh_pair(cfg)
    bits = ctx.bits("bits", lead + (2 * n,))
    y = ctx.call(mod.forward, bits)
    ctx.ensure("modulates", y.ok and SP.shape_is(y.value, lead + (n,)), note=repr(y.exc) if not y.ok else f"symbols {tuple(y.value.shape)}")
    if not (y.ok and SP.shape_is(y.value, lead + (n,))):
        return
    yr, yi = PC(y.value)
    zeros = np.zeros(lead + (2,), dtype=object)
    lead1 = lead if lead else (1,)  # one-symbol probes are sent batched: a 1-D input of <= 4 elements is read as symbol indices
    for i, g in enumerate(_groups(P(bits), lead, n, 2)):
        probe = g if i % 2 == 0 else np.concatenate([zeros, g], axis=-1)
        s = ctx.call(mod.forward, ctx.tensor(probe.reshape(lead1 + (-1,)), bits.dtype))
        k = i % 2
        ok = s.ok and SP.shape_is(s.value, lead1 + (k + 1,))
        if ok:
            sr, si = PC(s.value)
            ok = S.land(SP.all_eq(yr[..., i].reshape(-1), sr[..., k].reshape(-1)), SP.all_eq(yi[..., i].reshape(-1), si[..., k].reshape(-1)))
        ctx.ensure("symbol_i_from_group_i_and_parity", ok)


# ================================================================================================ registry (ground)
REGISTRY_NAMES = {
    "bpsk": ("bpskmodulator", "bpskdemodulator", "BPSKModulator", "BPSKDemodulator", "psk"),
    "qpsk": ("qpskmodulator", "qpskdemodulator", "QPSKModulator", "QPSKDemodulator", "psk"),
    "psk": ("pskmodulator", "pskdemodulator", "PSKModulator", "PSKDemodulator", "psk"),
    "qam": ("qammodulator", "qamdemodulator", "QAMModulator", "QAMDemodulator", "qam"),
    "pam": ("pammodulator", "pamdemodulator", "PAMModulator", "PAMDemodulator", "pam"),
    "dpsk": ("dpskmodulator", "dpskdemodulator", "DPSKModulator", "DPSKDemodulator", "dpsk"),
    "dbpsk": ("dbpsk", "dbpsk", "DBPSKModulator", "DBPSKDemodulator", "dpsk"),
    "dqpsk": ("dqpsk", "dqpsk", "DQPSKModulator", "DQPSKDemodulator", "dpsk"),
    "oqpsk": ("oqpsk", "oqpsk", "OQPSKModulator", "OQPSKDemodulator", "oqpsk"),
    "pi4qpsk": ("pi4qpsk", "pi4qpsk", "Pi4QPSKModulator", "Pi4QPSKDemodulator", "pi4qpsk"),
    "identity": ("identitymodulator", "identitydemodulator", "IdentityModulator", "IdentityDemodulator", "identity"),
}


def registry_kwargs(cfg, mode):
    fam = cfg[0]
    if fam in ("qpsk", "oqpsk"):
        return {"normalize": cfg[1] == "norm"}
    if fam in ("psk", "dpsk"):
        return {"order": cfg[1], "gray_coding": cfg[2] == "gray"}
    if fam in ("qam", "pam"):
        return {"order": cfg[1], "gray_coding": cfg[2] == "gray", "normalize": cfg[3] == "norm"}
    if fam == "pi4qpsk":
        if mode == "demodulator":
            import inspect

            from kaira.modulations.pi4qpsk import Pi4QPSKDemodulator

            if "gray_coded" not in inspect.signature(Pi4QPSKDemodulator.__init__).parameters:
                return {}  # trees before the fix: the demodulator has no labelling option
        return {"gray_coded": cfg[1] == "gray"}
    return {}


def _buffers(m):
    return {k: v for k, v in m.named_buffers()}


@obligation("C05.registry", function=M + "registry.py:ModulationRegistry.create; " + M + "registry.py:ModulationRegistry.create_modulator; " + M + "registry.py:ModulationRegistry.create_demodulator; " + M + "registry.py:ModulationRegistry.get; " + M + "registry.py:ModulationRegistry.register",
            configs=lambda tier: mods.catalogue(tier) + [Cfg("identity")], kind="ground", engine="ground")
def registry(cfg):
    """ModulationRegistry.create(name, mode, **options) is an instance of exactly the class the C05 contract is attached to,
    configured like the directly constructed object (same buffers)"""
    import importlib

    from kaira.modulations import ModulationRegistry as R

    fam = cfg[0]
    mname, dname, mcls, dcls, module = REGISTRY_NAMES[fam]
    pymod = importlib.import_module(f"kaira.modulations.{module}")
    direct = dict(zip(("modulator", "demodulator"), mods.build(cfg)))
    for mode, name, clsname in (("modulator", mname, mcls), ("demodulator", dname, dcls)):
        want = getattr(pymod, clsname)
        yield f"direct_constructor_is_contract_class.{mode}", type(direct[mode]) is want, f"mods.build gives {type(direct[mode]).__name__}, contract attached to {clsname}"
        try:
            got_cls = R.get(name, mode)
            obj = R.create(name, mode, **registry_kwargs(cfg, mode))
        except Exception as e:
            yield f"create_returns_contract_class.{mode}", False, f"ModulationRegistry.create({name!r}, {mode!r}) raised {e!r}"
            continue
        yield f"get_returns_contract_class.{mode}", got_cls is want, f"ModulationRegistry.get({name!r}, {mode!r}) -> {got_cls.__module__}.{got_cls.__qualname__}"
        yield f"create_returns_contract_class.{mode}", type(obj) is want, f"ModulationRegistry.create({name!r}, {mode!r}, {registry_kwargs(cfg, mode)}) -> {type(obj).__qualname__}"
        b1, b2 = _buffers(obj), _buffers(direct[mode])
        same = b1.keys() == b2.keys() and all(b1[k].shape == b2[k].shape and b1[k].dtype == b2[k].dtype and bool(torch.equal(b1[k], b2[k])) for k in b1)
        same = same and obj.bits_per_symbol == direct[mode].bits_per_symbol
        yield f"create_configures_like_constructor.{mode}", same, f"buffers {sorted(b1)} and bits_per_symbol {obj.bits_per_symbol} equal those of the direct constructor call: {same}"
    # the two default-mode entry points agree
    try:
        yield "default_mode_is_modulator", type(R.create(mname, **registry_kwargs(cfg, "modulator"))) is getattr(pymod, mcls), "create(name) without mode builds the modulator"
    except Exception as e:
        yield "default_mode_is_modulator", False, repr(e)


# ================================================================================================ long sequences (bounded stand-in)
def expected_roundtrip(cfg, bits, b):
    """what the property demands of demod(mod(bits)); returns (expected bit list per row, mask of positions that are claimed)"""
    fam = cfg[0]
    n = bits.shape[-1]
    if fam in ("dpsk", "dbpsk", "dqpsk"):
        return bits[..., b:], torch.ones_like(bits[..., b:], dtype=torch.bool)
    if fam == "oqpsk":
        exp = bits.clone()
        exp[..., 3::2] = bits[..., 1:-2:2]
        mask = torch.ones_like(bits, dtype=torch.bool)
        mask[..., 1] = False  # start-up: the first quadrature decision carries no transmitted bit
        return exp, mask
    return bits, torch.ones_like(bits, dtype=torch.bool)


def _long_cfgs(tier):
    return mods.catalogue(tier, max_points=256 if tier == "thorough" else 64) + [Cfg("identity")]


@obligation("C05.long_sequences", function="; ".join(f for k in FN for f in FN[k]), configs=_long_cfgs, kind="custom", engine="standin")
def long_sequences(spec, cfg, tier, seed):
    """bounded: seeded random long bit sequences, 1-D and (B, .) layouts, natively on the real pair"""
    t0 = time.time()
    rng = random.Random(seed * 7919 + 23)
    nseq = 6 if tier == "quick" else 40
    fails = {"returns_the_bits": None, "symbol_count": None}
    evals = 0
    for k in range(nseq):
        mod, dem = fresh_pair(cfg)
        b = mod.bits_per_symbol
        nsym = rng.choice([5, 17, 64, 257]) if tier == "quick" else rng.choice([5, 17, 64, 257, 1000])
        lead = () if k % 2 == 0 else (rng.choice([1, 2, 3]),)
        if k == nseq - 1 and cfg[0] in MEMLESS:
            # one very long BATCHED row per scheme: beyond any internal block size (4096, 8192 symbols), two rows
            nsym, lead = 8300, (2,)
        g = torch.Generator().manual_seed(rng.getrandbits(40))
        bits = torch.randint(0, 2, lead + (nsym * b,), generator=g).float()
        try:
            with torch.no_grad():
                y = mod(bits)
                out = dem(y)
        except Exception as e:
            fails["returns_the_bits"] = fails["returns_the_bits"] or {"layout": list(bits.shape), "raised": repr(e)}
            continue
        evals += 1
        if tuple(y.shape) != lead + (nsym,):
            fails["symbol_count"] = fails["symbol_count"] or {"bits_shape": list(bits.shape), "symbols_shape": list(y.shape), "bits_per_symbol": b}
        exp, mask = expected_roundtrip(cfg, bits, b)
        ok = tuple(out.shape) == tuple(exp.shape) and bool(torch.all((out.float() == exp) | ~mask))
        if not ok and fails["returns_the_bits"] is None:
            w = {"bits_shape": list(bits.shape), "output_shape": list(out.shape)}
            if tuple(out.shape) == tuple(exp.shape):
                bad = torch.nonzero(((out.float() != exp) & mask).reshape(-1))
                w["first_wrong_position"] = int(bad[0])
                w["wrong_positions"] = int(bad.numel())
                w["seed"] = seed
            fails["returns_the_bits"] = w
    res = []
    for clause, fail in fails.items():
        r = ObResult(prop="C05", ob=f"{spec.id}/{clause}", config=str(cfg), function=spec.function, engine="standin", backend="native", kind="bounded")
        r.verdict = "discharged" if fail is None else "refuted"
        r.paths = evals
        r.witness = fail
        r.replay_confirmed = None if fail is None else True
        r.detail = f"bounded: {nseq} seeded random sequences of 5..{257 if tier == 'quick' else 1000} symbols, layouts 1-D and (B, .); lengths > 3 symbols are covered by proof only through the per-symbol / step dependency obligations"
        r.wall_s = round(time.time() - t0, 2)
        res.append(r)
    return res


@obligation("C05.pi4qpsk_decision_structure", function=FN["pi4qpsk"][1], configs=lambda tier: _variants(mods.catalogue(tier, families=("pi4qpsk",)), ["1d.3", "B2.3"]), max_paths=64, timeout_ms=60000, crosscheck=2)
def pi4_decision_structure(ctx, vcfg):
    """for ALL received y (symbolic reals): the decision on symbol i is the one-symbol decision on y[i] with the constellation of
    its parity: even i: demod(y[i:i+1])[group 0]; odd i: demod(y[0] ++ y[i])[group 1]   (groups: b bits batched, 1 index for 1-D input)"""
    cfg, lead, n = _parse(vcfg)
    _, dem = fresh_pair(cfg)
    y = ctx.complexes("y", lead + (n,))
    out = ctx.call(dem.forward, y)
    ctx.ensure("demodulates", out.ok, note=repr(out.exc) if not out.ok else "")
    if not out.ok:
        return
    w = out.value.shape[-1] // n  # 2 bits per symbol (batched) or 1 index per symbol (1-D hard decisions on the pinned tree)
    ok = SP.shape_is(out.value, lead + (n * w,)) and w in (1, 2)
    ctx.ensure("output_is_per_symbol_groups", ok, note=f"output {tuple(out.value.shape)} for {n} symbols")
    if not ok:
        return
    o = P(out.value)
    yr, yi = PC(y)
    for i in range(n):
        if i % 2 == 0:
            probe = _complex_tensor(ctx, yr[..., i : i + 1], yi[..., i : i + 1])
            k = 0
        else:
            probe = _complex_tensor(ctx, np.concatenate([yr[..., 0:1], yr[..., i : i + 1]], axis=-1), np.concatenate([yi[..., 0:1], yi[..., i : i + 1]], axis=-1))
            k = 1
        o1 = ctx.call(dem.forward, probe)
        good = o1.ok and SP.shape_is(o1.value, lead + ((k + 1) * w,))
        if good:
            good = SP.all_eq(o[..., i * w : (i + 1) * w], P(o1.value)[..., k * w : (k + 1) * w])
        ctx.ensure("decision_i_from_y_i_and_parity", good)
    ctx.ensure("state_unchanged_in_eval", _state_is_reset(dem))


# ================================================================================================ input representation (bounded)
@obligation("C05.input_dtypes", function="; ".join(FN[k][0] for k in FN), configs=lambda tier: mods.catalogue(tier, max_points=256 if tier == "thorough" else 64), kind="custom", engine="standin")
def input_dtypes(spec, cfg, tier, seed):
    """bounded: modulator(bits) for bits carried as int64, int32, uint8, bool, float64, float16 equals the float32 result whenever it
    returns (contracts/dtypes.py); fresh pair in eval() per call; layouts (2, 3 symbols) and (1, 4 symbols) - batched, so that the
    1-D 'indices or bits' heuristics of the differential / alternating modulators are not involved"""
    from . import dtypes as DT

    b = mods.bits_per_symbol(cfg)
    rng = DT.rng_for(cfg, seed, "c05")
    g = torch.Generator().manual_seed(rng.getrandbits(40))
    cases = []
    for shape in ((2, 3 * b), (1, 4 * b), (3, 2 * b)):
        for _ in range(2):
            bits = torch.randint(0, 2, shape, generator=g).float()
            cases.append((f"modulate bits{shape}", lambda: fresh_pair(cfg)[0].forward, (bits,)))
        cases.append((f"modulate all-ones bits{shape}", lambda: fresh_pair(cfg)[0].forward, (torch.ones(shape),)))
    return DT.run("C05", spec, cfg, tier, seed, cases, DT.BIT_DTYPES, "modulation of batched bit rows (2x3, 1x4, 3x2 symbols)")


# ================================================================================================ alternative constructor options
@obligation("C05.constructor_options", function=M + "dpsk.py:DPSKModulator.__init__; " + M + "dpsk.py:DPSKDemodulator.__init__; " + M + "psk.py:BPSKModulator.forward; " + M + "pi4qpsk.py:Pi4QPSKDemodulator.forward",
            configs=lambda tier: [Cfg("options", "dpsk_aliases"), Cfg("options", "bpsk_real_output"), Cfg("options", "dpsk_invalid_order"), Cfg("options", "pi4_soft_output_flag")], kind="ground", engine="ground")
def constructor_options(cfg):
    """the rarely used constructor options configure the same scheme as the documented main ones (closed; exhaustive over the listed
    values): DPSK(bits_per_symbol=b, gray_coded=g) == DPSK(order=2^b, gray_coding=g) (buffers and every 3-symbol round trip);
    BPSKModulator(complex_output=False) emits 1-2x as a real tensor and round-trips; DPSK rejects orders that are no power of two"""
    import itertools

    from kaira.modulations import dpsk, pi4qpsk, psk

    what = cfg[1]
    if what == "dpsk_aliases":
        bad = []
        for b in (1, 2, 3, 4):
            for g in (True, False):
                pairs = [(dpsk.DPSKModulator(order=2**b, gray_coding=g), dpsk.DPSKDemodulator(order=2**b, gray_coding=g)), (dpsk.DPSKModulator(bits_per_symbol=b, gray_coded=g), dpsk.DPSKDemodulator(bits_per_symbol=b, gray_coded=g)),
                         (dpsk.DPSKModulator(bits_per_symbol=b, gray_coding=g), dpsk.DPSKDemodulator(bits_per_symbol=b, gray_coding=g))]
                ref_m, ref_d = pairs[0]
                for i, (m, d) in enumerate(pairs[1:], 1):
                    for o in (m, d):
                        o.eval()
                    b1, b2 = _buffers(m), _buffers(ref_m)
                    if not (m.bits_per_symbol == b and d.bits_per_symbol == b and m.order == 2**b and b1.keys() == b2.keys() and all(torch.equal(b1[k], b2[k]) for k in b1)):
                        bad.append(f"b={b} gray={g} style {i}: buffers / order differ from DPSK(order={2 ** b}, gray_coding={g})")
                        continue
                    for bits in itertools.product((0.0, 1.0), repeat=3 * b) if b <= 2 else [tuple(float((j * 5 + s) % 3 % 2) for j in range(3 * b)) for s in range(8)]:
                        x = torch.tensor([bits])
                        m.reset_state(), d.reset_state(), ref_m.reset_state(), ref_d.reset_state()
                        ref_m.eval(), ref_d.eval()
                        with torch.no_grad():
                            y, yr = m(x), ref_m(x)
                            o, orf = d(y), ref_d(yr)
                        if not (torch.allclose(y, yr) and torch.equal(o, orf) and torch.equal(o, x[..., b:])):
                            bad.append(f"b={b} gray={g} style {i}: bits {bits}: symbols/bits differ from the order= construction or from the sent bits")
                            break
        yield "bits_per_symbol_and_gray_coded_are_aliases", not bad, "; ".join(bad[:4]) or "b = 1..4, gray/binary, all 3-symbol sequences for b <= 2"
    elif what == "bpsk_real_output":
        m, d = psk.BPSKModulator(complex_output=False), psk.BPSKDemodulator()
        bad = []
        for bits in itertools.product((0.0, 1.0), repeat=4):
            for shape in ((4,), (1, 4), (2, 2)):
                x = torch.tensor(bits).reshape(shape)
                with torch.no_grad():
                    y = m(x)
                    o = d(y)
                if y.is_complex() or tuple(y.shape) != shape or not torch.equal(y, 1.0 - 2.0 * x) or not torch.equal(o.float(), x):
                    bad.append(f"bits {bits} shape {shape}: symbols {y.tolist()} demodulated {o.tolist()}")
        yield "real_output_is_1_minus_2x_and_round_trips", not bad, "; ".join(bad[:3]) or "all 4-bit sequences, layouts (4), (1,4), (2,2)"
    elif what == "dpsk_invalid_order":
        bad = []
        for order in (0, 3, 5, 6, 7, 12, -4):
            for cls in (dpsk.DPSKModulator, dpsk.DPSKDemodulator):
                try:
                    cls(order=order)
                    bad.append(f"{cls.__name__}(order={order}) accepted")
                except Exception:  # any error is a rejection (the demodulator fails in log2/int conversion for 0 and negative orders)
                    pass
        yield "order_not_a_power_of_two_rejected", not bad, "; ".join(bad) or "orders 0, 3, 5, 6, 7, 12, -4"
    else:
        # soft_output=True without a noise variance must still be a soft demodulation (unit variance) whose signs give the bits
        bad = []
        for g in (True, False):
            m = pi4qpsk.Pi4QPSKModulator(gray_coded=g)
            hard = pi4qpsk.Pi4QPSKDemodulator(gray_coded=g)
            soft = pi4qpsk.Pi4QPSKDemodulator(soft_output=True, gray_coded=g)
            ref = pi4qpsk.Pi4QPSKDemodulator(gray_coded=g)
            for o in (m, hard, soft, ref):
                o.eval()
            for bits in itertools.product((0.0, 1.0), repeat=6):
                x = torch.tensor([bits])
                with torch.no_grad():
                    y = m(x)
                    l, r, h = soft(y), ref(y, 1.0), hard(y)
                if tuple(l.shape) != tuple(x.shape) or not torch.allclose(l, r, rtol=1e-5, atol=1e-6) or not torch.equal((l < 0).float(), x) or not torch.equal(h.float(), x):
                    bad.append(f"gray={g} bits {bits}: soft_output LLRs {l.tolist()} unit-variance LLRs {r.tolist()} hard {h.tolist()}")
                    break
        yield "soft_output_flag_is_unit_variance_soft_demodulation", not bad, "; ".join(bad[:2]) or "all 3-symbol sequences, gray and binary"
