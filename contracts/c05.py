"""C05 - noise-free modulation followed by hard demodulation returns the transmitted bits.

Contract on the pair (modulator.forward, demodulator.forward with noise_var=None), per scheme/order/labelling/normalisation:
    forall bits:  demod(mod(bits)) == bits   and   mod(bits).shape == lead + (len(bits)/bits_per_symbol,)
schemes with memory, after reset_state() and in eval():
    DPSK/DBPSK/DQPSK   demod(mod(bits)) == bits[b:]            (the reference symbol's bits are not returned)
    OQPSK              out[2i] == bits[2i]  and  out[2i+1] == bits[2i-1] for i >= 1   (quadrature stream delayed by one symbol)
    pi/4-QPSK          demod(mod(bits)) == bits
The bits are SYMBOLIC (the input domain is finite, the proof is symbolic-exhaustive): the modulator's table lookup becomes an
ITE over the real constellation buffer, the demodulator's nearest-point rule is decided on the exact rationals of the stored
floats.  The DPSK hard decision needs torch.angle (atan2), which the engine does not model: there the bits are concretised by
forking (every bit pattern is one path, the real kernels run on each).

Dependency (frame) obligations - what extends the enumerated lengths (1..3 symbols) to long sequences:
    memoryless:  mod(bits)[i] == mod(bits[group i])[0]       (symbol i is the one-symbol function of bit group i, the same for all i)
                 demod(y)[group i] == demod(y[i:i+1])          for ALL complex y (symbolic reals), i.e. the decision is per symbol
    DPSK:        y[0] == mod(group 0)[0],  y[i] == y[i-1] * mod(group i)[0]       (differential step, same function for every i)
    OQPSK:       re y[i] == re mod(group i)[0],  im y[i] == im mod(group i-1 ++ 00)[1];   demod per symbol as above
    pi/4-QPSK:   y[i] == mod(group i)[0] (i even),  y[i] == mod(00 ++ group i)[1] (i odd);   demod: out[group i] == demod(y[i-1:i+1])[group 1] for odd i
ModulationRegistry.create(name, mode, **options) returns an instance of exactly the class the contract is attached to (ground).
"""
from __future__ import annotations

import random
import time

import numpy as np
import torch

from vk import spec as SP
from vk import sym as S
from vk.harness import ObResult, obligation
from vk.tensor import P, PC

from . import mods
from .codes import Cfg, split_variant

M = "kaira/modulations/"
FN = {
    "bpsk": (M + "psk.py:BPSKModulator.forward", M + "psk.py:BPSKDemodulator.forward"),
    "qpsk": (M + "psk.py:QPSKModulator.forward", M + "psk.py:QPSKDemodulator.forward"),
    "psk": (M + "psk.py:PSKModulator.forward", M + "psk.py:PSKDemodulator.forward"),
    "qam": (M + "qam.py:QAMModulator.forward", M + "qam.py:QAMDemodulator.forward"),
    "pam": (M + "pam.py:PAMModulator.forward", M + "pam.py:PAMDemodulator.forward; " + M + "pam.py:PAMDemodulator._hard_decision"),
    "identity": (M + "identity.py:IdentityModulator.forward", M + "identity.py:IdentityDemodulator.forward"),
    "dpsk": (M + "dpsk.py:DPSKModulator.forward; " + M + "dpsk.py:DPSKModulator.reset_state", M + "dpsk.py:DPSKDemodulator.forward"),
    "oqpsk": (M + "oqpsk.py:OQPSKModulator.forward; " + M + "oqpsk.py:OQPSKModulator.reset_state", M + "oqpsk.py:OQPSKDemodulator.forward"),
    "pi4qpsk": (M + "pi4qpsk.py:Pi4QPSKModulator.forward; " + M + "pi4qpsk.py:Pi4QPSKModulator.reset_state", M + "pi4qpsk.py:Pi4QPSKDemodulator.forward; " + M + "pi4qpsk.py:Pi4QPSKDemodulator.reset_state"),
}
MEMLESS = ("bpsk", "qpsk", "psk", "qam", "pam", "identity")
F_MEMLESS = "; ".join(f for k in MEMLESS for f in FN[k])
F_DPSK = "; ".join(FN["dpsk"])
F_OQPSK = "; ".join(FN["oqpsk"])
F_PI4 = "; ".join(FN["pi4qpsk"])


def fresh_pair(cfg):
    """a fresh (modulator, demodulator) from the real constructors, state reset, evaluation mode"""
    mod, dem = mods.build(cfg)
    mod.eval()
    dem.eval()
    mod.reset_state()
    dem.reset_state()
    return mod, dem


def npoints(cfg):
    if cfg[0] == "identity":
        return 2
    return mods.points(cfg)


def memoryless(tier, max_points=None):
    out = [c for c in mods.catalogue(tier, families=("bpsk", "qpsk", "psk", "qam", "pam"), max_points=max_points)] + [Cfg("identity")]
    return out


LAYOUTS = {"1d": (), "B1": (1,), "B2": (2,)}


def _variants(cfgs, names):
    return [Cfg(*c, v) for c in cfgs for v in names]


def _rt_cfgs(tier):
    out = []
    for c in memoryless(tier):
        n = npoints(c)
        if n <= 16:
            names = ["1d.1", "1d.2", "1d.3", "B1.1", "B2.2"] + (["B2.3"] if tier == "thorough" else [])
        elif n <= 64:
            names = ["1d.1", "1d.2", "B2.1"]
        else:
            names = ["1d.1", "B1.1"]
        out += _variants([c], names)
    return out


def _parse(vcfg):
    cfg, v = split_variant(vcfg)
    lay, n = v.split(".")
    return cfg, LAYOUTS[lay], int(n)


def _eq_complex(a, b):
    (ar, ai), (br, bi) = PC(a), PC(b)
    if ar.shape != br.shape:
        return False
    return S.land(SP.all_eq(ar, br), SP.all_eq(ai, bi))


# ------------------------------------------------------------------------------------------------ memoryless schemes
@obligation("C05.roundtrip", function=F_MEMLESS, configs=_rt_cfgs, max_paths=64, timeout_ms=60000, crosscheck=2)
def roundtrip(ctx, vcfg):
    cfg, lead, n = _parse(vcfg)
    mod, dem = fresh_pair(cfg)
    b = mod.bits_per_symbol
    bits = ctx.bits("bits", lead + (n * b,))
    y = ctx.call(mod.forward, bits)
    ctx.ensure("modulates", y.ok, note=repr(y.exc) if not y.ok else "")
    if not y.ok:
        return
    ctx.ensure("symbol_count", SP.shape_is(y.value, lead + (n,)), note=f"symbols {tuple(y.value.shape)}, bits {tuple(bits.shape)}, bits_per_symbol {b}")
    out = ctx.call(dem.forward, y.value)
    ctx.ensure("demodulates", out.ok, note=repr(out.exc) if not out.ok else "")
    if not out.ok:
        return
    ctx.ensure("returns_the_bits", SP.shape_is(out.value, bits.shape) and SP.all_eq(P(out.value), P(bits)))
    ctx.ensure("inputs_unmodified", S.land(y.unmodified, out.unmodified))
