"""C12 - binary channels follow their transition law and never leave their alphabet.

RNG contract (assumed, DESIGN 4.2): torch.rand_like returns fresh independent symbols u_i, uniform on [0,1).
With symbolic input x over the alphabet, symbolic probability p in [0,1] (0-dim tensor) and symbolic draws u:
   BSC      y_i = x_i xor [u_i < p]      (in the input's alphabet)
   BEC      y_i = erasure_symbol if u_i < p else x_i
   Z        x_i = 0 => y_i = 0 ;  x_i = 1 => y_i = [not u < p]   (u = the draw consumed for that position)
Consequences proved from the same runs: alphabet preservation, p = 0 identity, p = 1 deterministic extreme, y_i depends on
(x_i, u_i) only, input tensor unmodified.  With the moment lemma (P(u < p) = p, independence of distinct symbols) this is the
transition law of the property.
"""
from __future__ import annotations

import numpy as np
import torch

from vk import spec as SP
from vk import sym as S
from vk.harness import obligation
from vk.tensor import P

from .codes import Cfg

F = "kaira/channels/digital.py"

SHAPES = {"n3": (3,), "2x2": (2, 2), "n1": (1,)}


def _cfgs(tier):
    out = []
    for ch in ("bsc", "bec", "z"):
        for alpha in ("binary", "bipolar"):
            for dt in ("float32", "int64") + (("bool",) if alpha == "binary" else ()):
                for shp in ("n3", "2x2") + (("n1",) if tier == "thorough" else ()):
                    if ch == "bec" and dt == "bool" and False:
                        continue
                    out.append(Cfg(ch, alpha, dt, shp))
    # history: the same channel object has first transmitted a block of the OTHER alphabet (nothing learnt from one block may be
    # applied to the next)
    for ch in ("bsc", "bec", "z"):
        for alpha in ("binary", "bipolar"):
            out.append(Cfg(ch, alpha, "float32", "n3", "after_other_alphabet"))
    return out


def _input(ctx, alpha, dt, shape):
    dtype = getattr(torch, dt)
    b = ctx.bits("x", shape, dtype=torch.bool if dt == "bool" else dtype)
    if alpha == "binary":
        return b, P(b)
    # bipolar: x = 2b - 1, recognised by the channel only if it contains a -1
    bp = P(b)
    vals = np.empty(bp.shape, dtype=object)
    for idx in np.ndindex(*bp.shape):
        vals[idx] = S.sub(S.mul(2, bp[idx]), 1)
    ctx.assume(SP.disj(S.eq(v, -1) for v in vals.reshape(-1)))
    return ctx.tensor(vals, dtype), vals


def _prob(ctx):
    p = ctx.scalar("p", "real", sampler=lambda r: r.choice([0.0, 1.0, r.random(), r.random()]))
    ctx.assume(S.land(S.le(0, p), S.le(p, 1)))
    return p


@obligation(
    "C12.transition_law",
    function=F + ":BinarySymmetricChannel.forward; " + F + ":BinaryErasureChannel.forward; " + F + ":BinaryZChannel.forward; kaira/utils/__init__.py:to_tensor",
    configs=_cfgs,
    max_paths=3000,
    timeout_ms=30000,
)
def transition_law(ctx, cfg):
    from kaira.channels.digital import BinaryErasureChannel, BinarySymmetricChannel, BinaryZChannel

    ch, alpha, dt, shp = cfg[:4]
    history = cfg[4] if len(cfg) > 4 else None
    shape = SHAPES[shp]
    x, xv = _input(ctx, alpha, dt, shape)
    p = _prob(ctx)
    with ctx.sym():
        pt = ctx.tensor(np.asarray(p, dtype=object), torch.float32) if ctx.mode == "sym" else torch.tensor(float(p))
        chan = {"bsc": BinarySymmetricChannel, "bec": BinaryErasureChannel, "z": BinaryZChannel}[ch](pt)
    if history:
        other = torch.tensor([-1.0, 1.0, 1.0, -1.0]) if alpha == "binary" else torch.tensor([0.0, 1.0, 1.0, 0.0])
        first = ctx.call(chan.forward, other)
        ctx.ensure("earlier_block_of_other_alphabet_transmitted", first.ok, note=repr(first.exc) if not first.ok else "")
    base = len(ctx.rng_draws)
    out = ctx.call(chan.forward, x)
    ctx.ensure("returns", out.ok, note=repr(out.exc) if not out.ok else "")
    if not out.ok:
        return
    draws = ctx.rng_draws[base:]
    y = out.value
    ctx.ensure("shape_preserved", SP.shape_is(y, shape))
    ctx.ensure("input_unmodified", out.unmodified)
    yv = P(y)
    lo, hi = (0, 1) if alpha == "binary" else (-1, 1)
    one = hi
    zero = lo
    if ch == "z" and not draws:
        # no draw consumed on this path: only legal when p == 0 or the input has no ones
        no_ones = SP.conj(S.ne(v, one) for v in xv.reshape(-1))
        ctx.ensure("no_draw_only_if_no_flip_possible", S.lor(S.eq(p, 0), no_ones))
        ctx.ensure("law", SP.all_eq(yv, xv))
        ctx.ensure("alphabet", SP.conj(S.lor(S.eq(v, lo), S.eq(v, hi)) for v in yv.reshape(-1)))
        return
    ctx.ensure("one_rng_call", len(draws) == 1 and draws[0][1] == "uniform")
    if len(draws) != 1:
        return
    u = P(draws[0][2])
    claims = []
    alph = []
    if ch == "bsc":
        ctx.ensure("one_draw_per_position", tuple(u.shape) == tuple(shape))
        for idx in np.ndindex(*shape):
            flip = S.lt(u[idx], p)
            other = one if True else None
            flipped = S.ite(S.eq(xv[idx], one), zero, one)
            claims.append(S.eq(yv[idx], S.ite(flip, flipped, xv[idx])))
            alph.append(S.lor(S.eq(yv[idx], lo), S.eq(yv[idx], hi)))
    elif ch == "bec":
        ctx.ensure("one_draw_per_position", tuple(u.shape) == tuple(shape))
        for idx in np.ndindex(*shape):
            er = S.lt(u[idx], p)
            claims.append(S.eq(yv[idx], S.ite(er, -1, xv[idx])))
            alph.append(S.lor(S.lor(S.eq(yv[idx], lo), S.eq(yv[idx], hi)), S.eq(yv[idx], -1)))
    else:
        # Z channel: draws exist only for the positions holding a one, in row-major order
        ones = [idx for idx in np.ndindex(*shape)]
        uflat = list(u.reshape(-1))
        # on this path the mask is decided: positions with x == one (path condition) consume the draws in order
        k = 0
        for idx in ones:
            is_one = S.eq(xv[idx], one)
            if is_one is True or (isinstance(is_one, S.Sym) and bool(is_one)):
                if k >= len(uflat):
                    claims.append(False)
                    break
                claims.append(S.eq(yv[idx], S.ite(S.lt(uflat[k], p), zero, one)))
                k += 1
            else:
                claims.append(S.eq(yv[idx], zero))
            alph.append(S.lor(S.eq(yv[idx], lo), S.eq(yv[idx], hi)))
        ctx.ensure("one_draw_per_one", k == len(uflat))
    ctx.ensure("law", SP.conj(claims))
    ctx.ensure("alphabet", SP.conj(alph))
    # extremes follow from the law; stated explicitly because the property names them
    ident = SP.all_eq(yv, xv)
    ctx.ensure("p0_is_identity", S.lor(S.ne(p, 0), ident))
    if ch == "bsc":
        allflip = SP.conj(S.ne(a, b) for a, b in zip(yv.reshape(-1), xv.reshape(-1)))
        ctx.ensure("p1_flips_everything", S.lor(S.ne(p, 1), allflip))
    elif ch == "bec":
        ctx.ensure("p1_erases_everything", S.lor(S.ne(p, 1), SP.conj(S.eq(v, -1) for v in yv.reshape(-1))))
    else:
        ctx.ensure("p1_zeroes_everything", S.lor(S.ne(p, 1), SP.conj(S.eq(v, zero) for v in yv.reshape(-1))))


# ================================================================================================ erasure symbol options (closed)
@obligation("C12.erasure_symbol_options", function=F + ":BinaryErasureChannel.forward; " + F + ":BinaryErasureChannel.__init__",
            configs=lambda tier: [Cfg("bec_symbol", s) for s in ("-1", "2", "0.5", "0", "inf", "-inf", "nan")], kind="ground", engine="ground")
def erasure_symbol_options(cfg):
    """every output position carries either the input symbol (unerased) or the configured erasure symbol - whatever that symbol is,
    non-finite values included (nan is a common 'missing' marker): p = 0 is the identity, p = 1 erases everything, and for 0 < p < 1
    every position that is not the erasure symbol equals its input exactly.  Closed: fixed seeds, {0,1} and {-1,+1} words, three
    layouts; no statistics involved"""
    import math

    from kaira.channels.digital import BinaryErasureChannel

    sym = float(cfg[1])
    is_sym = (lambda t: torch.isnan(t)) if math.isnan(sym) else (lambda t: t == sym)
    bad = []
    g = torch.Generator().manual_seed(12)
    for alpha in ("binary", "bipolar"):
        for shape in ((64,), (4, 16), (2, 2, 8)):
            x = torch.randint(0, 2, shape, generator=g).float()
            if alpha == "bipolar":
                x = 2 * x - 1
            if sym in (0.0, 1.0, -1.0) and bool((x == sym).any()) and alpha == "binary" and sym in (0.0, 1.0):
                continue  # an erasure symbol inside the alphabet cannot be told from data
            for p in (0.0, 0.3, 0.7, 1.0):
                torch.manual_seed(7)
                try:
                    y = BinaryErasureChannel(p, erasure_symbol=sym)(x)
                except Exception as e:
                    bad.append(f"p={p} {alpha} {shape}: raised {e!r}")
                    continue
                er = is_sym(y)
                if tuple(y.shape) != tuple(x.shape):
                    bad.append(f"p={p} {alpha} {shape}: shape {tuple(y.shape)}")
                elif p == 0.0 and not torch.equal(y, x):
                    bad.append(f"p=0 {alpha} {shape}: output differs from input at {int((y != x).sum())} positions (erasure symbol {sym})")
                elif p == 1.0 and not bool(er.all()) and not (alpha == "bipolar" and sym == -1.0):
                    bad.append(f"p=1 {alpha} {shape}: {int((~er).sum())} positions not erased")
                elif not torch.equal(torch.where(er, x, y), x) and not (alpha == "bipolar" and sym == -1.0):
                    bad.append(f"p={p} {alpha} {shape}: {int((torch.where(er, x, y) != x).sum())} unerased positions differ from the input (erasure symbol {sym})")
    yield "output_is_input_or_erasure_symbol", not bad, "; ".join(bad[:3]) or f"erasure symbol {sym}: p in (0, .3, .7, 1), binary and bipolar words, 3 layouts"
