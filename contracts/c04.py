"""C04 - encoding followed by the encoder's own inverse is the identity.

  forall m: inverse_encode(forward(m)) == (m, 0);  extract_message(forward(m)) == m;  project_word(forward(m)) == m
  blockwise for b concatenated blocks and any leading batch dimensions; last dimension scales by exactly n/k and k/n;
  a last dimension that is not a multiple of the block size is rejected with an error (never answered with values).
  compute_right_pseudo_inverse: G . R = I over GF(2)  (ground, on every matrix the constructors produced)
"""
from __future__ import annotations

import numpy as np
import torch

from vk import ground as Gd
from vk import spec as SP
from vk import sym as S
from vk.harness import obligation
from vk.tensor import P

from . import codes

F = "kaira/models/fec/encoders/"


def _cfgs(tier):
    return [c for c in codes.catalogue(tier) if not codes.rm_search_heavy(c)]


def _layouts(k, tier):
    L = [("1d", (k,)), ("Bk", (2, k)), ("BBk", (2, 1, k)), ("B2k", (1, 2 * k))]
    if tier == "thorough":
        L += [("B3k", (2, 3 * k)), ("B4k", (1, 4 * k))]
    return L


def _zeros(shape):
    a = np.empty(tuple(shape), dtype=object)
    a.fill(0)
    return a


@obligation(
    "C04.roundtrip",
    function=F + "linear_block_code.py:LinearBlockCodeEncoder.inverse_encode; " + F + "linear_block_code.py:LinearBlockCodeEncoder.forward; " + F + "hamming_code.py:HammingCodeEncoder.inverse_encode; "
    + F + "reed_muller_code.py:ReedMullerCodeEncoder.inverse_encode; " + F + "base.py:BaseBlockCodeEncoder.extract_message; " + F + "systematic_linear_block_code.py:SystematicLinearBlockCodeEncoder.project_word; kaira/models/fec/utils.py:apply_blockwise",
    configs=_cfgs,
    max_paths=30000,
    timeout_ms=30000,
)
def roundtrip(ctx, cfg):
    enc, err = codes.try_build(cfg)
    if enc is None:
        ctx.ensure("constructs", False, note=repr(err))
        return
    k, n = enc.generator_matrix.shape
    heavy = cfg.family == "rm" and k > 4  # nearest-codeword search over 2^k codewords per row
    for name, shape in _layouts(k, "quick"):
        if heavy and name != "1d":
            continue
        m = ctx.bits(f"m_{name}", shape)
        c = ctx.call(enc.forward, m)
        ctx.ensure(f"{name}.encodes", c.ok, note=repr(c.exc) if not c.ok else "")
        if not c.ok:
            continue
        cw_shape = shape[:-1] + (shape[-1] * n // k,)
        ctx.ensure(f"{name}.encoded_shape", SP.shape_is(c.value, cw_shape))
        inv = ctx.call(enc.inverse_encode, c.value)
        ctx.ensure(f"{name}.inverse_returns", inv.ok, note=repr(inv.exc) if not inv.ok else "")
        if inv.ok:
            res = inv.value
            msg = res[0] if isinstance(res, tuple) else res
            ctx.ensure(f"{name}.inverse_shape", SP.shape_is(msg, shape))
            ctx.ensure(f"{name}.inverse_is_message", SP.shape_is(msg, shape) and SP.all_eq(P(msg), P(m)))
            if isinstance(res, tuple) and len(res) > 1:
                ctx.ensure(f"{name}.syndrome_zero", SP.all_eq(P(res[1]), _zeros(res[1].shape)))
            ctx.ensure(f"{name}.codeword_unmodified", inv.unmodified)
        ext = ctx.call(enc.extract_message, c.value)
        ctx.ensure(f"{name}.extract_returns", ext.ok, note=repr(ext.exc) if not ext.ok else "")
        if ext.ok:
            ctx.ensure(f"{name}.extract_is_message", SP.shape_is(ext.value, shape) and SP.all_eq(P(ext.value), P(m)))
        if hasattr(enc, "project_word"):
            pw = ctx.call(enc.project_word, c.value)
            ctx.ensure(f"{name}.project_returns", pw.ok)
            if pw.ok:
                ctx.ensure(f"{name}.project_is_message", SP.shape_is(pw.value, shape) and SP.all_eq(P(pw.value), P(m)))


def _rej_cfgs(tier):
    out = []
    for c in codes.catalogue(tier):
        if codes.rm_search_heavy(c):
            continue
        enc, _ = codes.try_build(c)
        if enc is not None and tuple(enc.generator_matrix.shape) == (1, 1):
            continue  # block size 1: every length is admissible, nothing to reject
        if enc is not None and c.family == "rm" and enc.generator_matrix.shape[0] == 1 and enc.generator_matrix.shape[1] > 8:
            continue  # k = 1 (no forward rejection to state) and the inverse clauses are skipped for n > 8
        out.append(c)
    return out


@obligation(
    "C04.rejects_bad_length",
    function=F + "linear_block_code.py:LinearBlockCodeEncoder.forward; " + F + "linear_block_code.py:LinearBlockCodeEncoder.inverse_encode; " + F + "linear_block_code.py:LinearBlockCodeEncoder.calculate_syndrome; kaira/models/fec/utils.py:apply_blockwise",
    configs=_rej_cfgs,
    max_paths=30000,
)
def rejects(ctx, cfg):
    """a last dimension that is not a multiple of the block size must raise, for every input"""
    enc, err = codes.try_build(cfg)
    if enc is None:
        ctx.ensure("constructs", False, note=repr(err))
        return
    k, n = enc.generator_matrix.shape
    if k > 1:
        x = ctx.bits("x", (2, k + 1) if k + 1 < 2 * k or k == 1 else (2, k - 1))
        r = ctx.call(enc.forward, x)
        ctx.ensure("forward_rejects", r.raised(ValueError, AssertionError, RuntimeError), note="returned a value" if r.ok else repr(r.exc))
    if (cfg.family == "rm" and n > 8) or n == 1:
        return  # n == 1: every length is a multiple of the block size
    y = ctx.bits("y", (2, n + 1))
    r = ctx.call(enc.inverse_encode, y)
    ctx.ensure("inverse_rejects", r.raised(ValueError, AssertionError, RuntimeError, IndexError), note="returned a value" if r.ok else repr(r.exc))
    r = ctx.call(enc.calculate_syndrome, y)
    ctx.ensure("syndrome_rejects", r.raised(ValueError, AssertionError, RuntimeError, IndexError), note="returned a value" if r.ok else repr(r.exc))
    # layouts whose LAST dimension is not a multiple of the block size although the total number of elements is (a size check
    # on numel, or a flatten before the check, accepts them and glues rows into pseudo-blocks)
    def glued(w):
        return [sh for sh in ((w, 1), (2, w // 2) if w % 2 == 0 and w > 2 else None, (w, w + 1) if w <= 8 else None, (2, 1, w // 2) if w % 2 == 0 and w > 2 else None) if sh]

    for sh in glued(n):
        tag = "x".join(map(str, sh))
        yy = ctx.bits(f"y_{tag}", sh)
        for nm, f in (("inverse", enc.inverse_encode), ("syndrome", enc.calculate_syndrome), ("extract", enc.extract_message)):
            r = ctx.call(f, yy)
            ctx.ensure(f"{nm}_rejects_{tag}", r.raised(ValueError, AssertionError, RuntimeError, IndexError), note="returned a value" if r.ok else repr(r.exc))
    if k > 1:
        for sh in glued(k):
            tag = "x".join(map(str, sh))
            r = ctx.call(enc.forward, ctx.bits(f"x_{tag}", sh))
            ctx.ensure(f"forward_rejects_{tag}", r.raised(ValueError, AssertionError, RuntimeError, IndexError), note="returned a value" if r.ok else repr(r.exc))


@obligation(
    "C04.right_inverse",
    function=F + "linear_block_code.py:compute_right_pseudo_inverse",
    configs=_cfgs,
    kind="ground",
    engine="ground",
)
def right_inverse(cfg):
    enc, err = codes.try_build(cfg)
    if enc is None:
        yield "constructs", False, repr(err)
        return
    G = SP.int_matrix(enc.generator_matrix)
    R = SP.int_matrix(enc.generator_right_inverse)
    k, n = len(G), len(G[0])
    ok_shape = len(R) == n and all(len(r) == k for r in R)
    yield "shape", ok_shape, f"R is {len(R)}x{len(R[0]) if R else 0}, expected {n}x{k}"
    if ok_shape:
        prod = [[sum(G[i][l] * R[l][j] for l in range(n)) % 2 for j in range(k)] for i in range(k)]
        yield "G_R_is_identity", prod == [[1 if i == j else 0 for j in range(k)] for i in range(k)], "G.R = I over GF(2)"


# ---------------------------------------------------------------------------------------- helper contract on ALL small full-rank matrices
def _shape_cfgs(tier):
    lim = 12 if tier == "quick" else 16
    return [codes.Cfg("allmat", k, n) for k in range(1, 5) for n in range(k, 7) if k * n <= lim]


@obligation("C04.right_inverse_all_small_matrices", function=F + "linear_block_code.py:compute_right_pseudo_inverse", configs=_shape_cfgs, kind="ground", engine="ground")
def right_inverse_all_small(cfg):
    """compute_right_pseudo_inverse(G): G.R = I over GF(2) for EVERY full-rank binary k x n matrix of the given shape (exhaustive)"""
    from kaira.models.fec.encoders.linear_block_code import compute_right_pseudo_inverse

    _, k, n = cfg
    bad = None
    count = 0
    for bits in range(1 << (k * n)):
        rows = [[(bits >> (i * n + j)) & 1 for j in range(n)] for i in range(k)]
        if Gd.rank(Gd.rows_to_masks(rows)) != k:
            continue
        R = compute_right_pseudo_inverse(torch.tensor(rows, dtype=torch.float32))
        count += 1
        Rl = [[int(round(float(v))) for v in r] for r in R.tolist()]
        ok = len(Rl) == n and all(len(r) == k for r in Rl)
        if ok:
            prod = [[sum(rows[i][l] * Rl[l][j] for l in range(n)) % 2 for j in range(k)] for i in range(k)]
            ok = prod == [[1 if i == j else 0 for j in range(k)] for i in range(k)]
        if not ok:
            bad = {"G": rows, "R": Rl}
            break
    yield "G_R_is_identity", bad is None, f"all {count} full-rank binary {k}x{n} matrices" if bad is None else f"fails for G = {bad['G']}: R = {bad['R']}"


# ================================================================================================ input representation (bounded)
@obligation(
    "C04.input_dtypes",
    function=F + "linear_block_code.py:LinearBlockCodeEncoder.inverse_encode; " + F + "linear_block_code.py:LinearBlockCodeEncoder.forward; " + F + "hamming_code.py:HammingCodeEncoder.inverse_encode; "
    + F + "reed_muller_code.py:ReedMullerCodeEncoder.inverse_encode; " + F + "base.py:BaseBlockCodeEncoder.extract_message; " + F + "systematic_linear_block_code.py:SystematicLinearBlockCodeEncoder.project_word",
    configs=lambda tier: [c for c in codes.catalogue(tier) if not codes.rm_search_heavy(c)],
    kind="custom",
    engine="standin",
)
def input_dtypes(spec, cfg, tier, seed):
    """bounded: the round trip inverse(forward(m)) for messages / words carried as int64, int32, uint8, bool, float64, float16
    gives what it gives for float32 (contracts/dtypes.py); words with one flipped bit included (the correcting inverses)"""
    from . import dtypes as DT

    enc, err = codes.try_build(cfg)
    if enc is None:
        return []
    k, n = enc.generator_matrix.shape
    rng = DT.rng_for(cfg, seed, "c04")
    g = torch.Generator().manual_seed(rng.getrandbits(40))
    cases = []
    for shape in ((k,), (3, k), (2, 2 * k)):
        m = torch.randint(0, 2, shape, generator=g).float()
        cases.append((f"inverse_encode(forward(m)) m{shape}", lambda: (lambda x: enc.inverse_encode(enc(x))), (m,)))
        cases.append((f"extract_message(forward(m)) m{shape}", lambda: (lambda x: enc.extract_message(enc(x))), (m,)))
        if hasattr(enc, "project_word"):
            cases.append((f"project_word(forward(m)) m{shape}", lambda: (lambda x: enc.project_word(enc(x))), (m,)))
        with torch.no_grad():
            y = enc(m).clone()
        for _ in range(3):
            w = y.clone()
            pos = rng.randrange(n)
            w[..., pos] = 1 - w[..., pos]
            cases.append((f"inverse_encode(word with bit {pos} flipped) {tuple(w.shape)}", lambda: enc.inverse_encode, (w,)))
            cases.append((f"extract_message(word with bit {pos} flipped) {tuple(w.shape)}", lambda: enc.extract_message, (w,)))
    return DT.run("C04", spec, cfg, tier, seed, cases, DT.BIT_DTYPES, "round trip and inverse of single-error words, layouts (k), (3,k), (2,2k)")
