"""C19 - differentiability and shape contract of DeepJSCC pipelines (engine E3 "symshape" + autograd-side checks).

Obligations (one spec per model / per class so that the runner spreads them over processes):

  C19.shape_<model>     P-infinity in B,H,W: the REAL encoder / decoder / decoder(encoder(x)) run under FakeTensorMode+ShapeEnv;
                        z3 proves  decoder(encoder(x)).shape == x.shape,  latent == (B, C_doc, H/f_doc, W/f_doc),
                        numel(latent)/B == C_doc/(3 f_doc^2) * 3HW,  guards implied by the precondition (case split),
                        cover + canary;  ground: stride stages read from the module, documented output activation;
                        bounded: native differential check of the symbolic sizes, native value range.
  C19.shape_*_model     model-level wrappers whose forward defeats ShapeEnv (data-dependent branch in the power constraint,
                        fixed-size device embedding): bounded on sizes {16,32,48,64} x batches {1,2,5}.
  C19.num_filters       calculate_num_filters_factor_image: float-based; proved over the reals from the re-read AST + bounded native.
  C19.nodetach_<class>  AST taint analysis of the real forward (+ callees): no detach/item/float/re-wrap/.data/numpy/no_grad on the signal path.
  C19.gradcheck_<class> ground: input leaf reachable in the real autograd graph; bounded: gradcheck (float64, frozen RNG).
  C19.e2e_grad          bounded: DeepJSCCModel(encoder, constraint, channel, decoder): every encoder parameter gets a finite non-zero gradient.

"Documented" quantities are read from the real objects at run time (constructor arguments, docstrings, the
``bandwidth_ratio`` property); the source of each is quoted in the obligation's ``detail``.
"""
from __future__ import annotations

import dataclasses
import importlib
import inspect
import re
import time
import traceback
from fractions import Fraction

import torch
import z3

from vk import e3 as E3
from vk.harness import ObResult, obligation

IMG = "kaira/models/image/"
QUICK_SIZES = [(1, 16, 32), (2, 32, 16), (5, 48, 16)]
THOROUGH_SIZES = [(b, h, w) for b in (1, 2, 5) for (h, w) in ((16, 16), (32, 32), (48, 48), (64, 64), (16, 64), (48, 32))]


def _m(name, mods=None):
    if mods and name in mods:
        return mods[name]
    return importlib.import_module(name)


def _doc_int(doc, pattern, what):
    mt = re.search(pattern, doc or "")
    if not mt:
        return None, f"{what}: pattern {pattern!r} not found in the docstring"
    return int(mt.group(1)), f"{what}: '{mt.group(0)}'"


@dataclasses.dataclass
class Pair:
    name: str
    enc: object
    dec: object
    stages: list
    encode: callable
    decode: callable  # (z, x) -> y : decoder applied to the latent of x
    decode_latent: callable  # (z, f) -> y
    dec_in_ch: int
    c_doc: int
    c_src: str
    f_doc: int | None
    f_src: str
    in_ch: int = 3
    out_ch: int = 3
    range_doc: tuple | None = None
    final_layer: object = None
    note: str = ""


# ------------------------------------------------------------------------------------------------ catalogue
def build_pair(name, p, mods=None):
    if name == "bourtsoulatze2019":
        M = _m("kaira.models.image.bourtsoulatze2019_deepjscc", mods)
        c = p.get("c", 8)
        enc, dec = M.Bourtsoulatze2019DeepJSCCEncoder(c), M.Bourtsoulatze2019DeepJSCCDecoder(c)
        f, fs = _doc_int(M.Bourtsoulatze2019DeepJSCCEncoder.forward.__doc__, r"H\s*//\s*(\d+)", "Encoder.forward docstring '(B, num_transmitted_filters, H//4, W//4)'")
        return Pair(name, enc, dec, list(enc.model), enc, lambda z, x: dec(z), lambda z, f_: dec(z), c, c, "constructor argument num_transmitted_filters ('Number of filters in the final encoding layer')", f, fs,
                    range_doc=(0.0, 1.0, "decoder constructor gives the last layer activate=nn.Sigmoid(); images are normalised to [0,1]"), final_layer=getattr(dec.model[-1], "activate", None))
    if name in ("tung2022_q", "tung2022_q2", "yilmaz2023_noma"):
        T = _m("kaira.models.image.tung2022_deepjscc_q", mods)
        N, Mm = p.get("N", 8), p.get("M", 4)
        if name == "tung2022_q":
            enc, dec = T.Tung2022DeepJSCCQEncoder(N, Mm), T.Tung2022DeepJSCCQDecoder(N, Mm)
            k, fs = _doc_int(T.Tung2022DeepJSCCQ2Encoder.__doc__, r"contains (\d+) strided layers", "Tung2022DeepJSCCQ2Encoder class docstring 'DeepJSCCQ, which contains 4 strided layers'")
            return Pair(name, enc, dec, list(enc.g_a), enc, lambda z, x: dec(z), lambda z, f_: dec(z), Mm, Mm, "constructor argument M ('number of output channels in the last convolutional layer')", None if k is None else 2**k, fs,
                        note="no output range documented ('The decoded image'); last decoder layer is ResidualBlockUpsample: range clause not applicable")
        if name == "tung2022_q2":
            enc, dec = T.Tung2022DeepJSCCQ2Encoder(N, Mm), T.Tung2022DeepJSCCQ2Decoder(N, Mm)
            in_ch, csrc = 3, "constructor argument M ('number of output channels in the final layer')"
        else:
            Y = _m("kaira.models.image.yilmaz2023_deepjscc_noma", mods)
            enc, dec = Y.Yilmaz2023DeepJSCCNOMAEncoder(N=N, M=Mm), Y.Yilmaz2023DeepJSCCNOMADecoder(N=N, M=Mm)
            in_ch, csrc = 4, "constructor argument M ('Latent dimension of the bottleneck representation'); input = 3 image channels + 1 device-embedding channel (in_ch=4), output out_ch_per_device=3"
        br = enc.bandwidth_ratio
        f = int(round(1 / br)) if abs(1 / br - round(1 / br)) < 1e-9 else None
        fs = f"encoder.bandwidth_ratio property = {br} ('Downsampling 2x twice'), decoder.bandwidth_ratio = {dec.bandwidth_ratio}"
        if f is not None and abs(dec.bandwidth_ratio - f) > 1e-9:
            f, fs = None, fs + " (encoder and decoder ratios are not reciprocal)"

        def csi(t):
            return t.new_zeros(t.shape[0], 1)

        return Pair(name, enc, dec, list(enc.g_a), lambda x: enc(x, csi(x)), lambda z, x: dec(z, csi(x)), lambda z, f_: dec(z, csi(z)), Mm, Mm, csrc, f, fs, in_ch=in_ch,
                    note="no output range documented; last decoder layer is an AFModule (mask * x): range clause not applicable")
    if name == "kurka2020":
        K = _m("kaira.models.image.kurka2020_deepjscc_feedback", mods)
        d = p.get("conv_depth", 8)
        model = K.DeepJSCCFeedbackModel(channel_snr=10.0, conv_depth=d, channel_type="awgn", feedback_snr=None, refinement_layer=False, layer_id=0)
        enc, dec = model.encoder, model.decoder
        return Pair(name, enc, dec, list(enc.layers), enc, lambda z, x: model(x)["decoded_img"], lambda z, f_: dec(z), 256, d, "constructor argument conv_depth ('Depth of the output convolutional features, which determines the channel bandwidth usage')", None,
                    "no spatial factor is documented for the Kurka encoder: 2^L read from the module is used", range_doc=(0.0, 1.0, "DeepJSCCFeedbackDecoder.forward docstring: 'Reconstructed image in range [0, 1]'"), final_layer=dec.layers[-1],
                    note="num_filters=256 is hard-coded (width cannot be reduced); decoder(encoder(x)) is composed by the real DeepJSCCFeedbackModel.forward (base layer: zero-pads the latent to 256 channels, real AWGNChannel in between)")
    if name.startswith("yilmaz2024_wz"):
        W = _m("kaira.models.image.yilmaz2024_deepjscc_wz", mods)
        N, Mm = p.get("N", 8), p.get("M", 4)

        def csi(t):
            return t.new_zeros(t.shape[0], 1, 1, 1)

        def side_for(z, f_):
            return z.new_zeros(z.shape[0], 3, f_ * z.shape[2], f_ * z.shape[3])

        if name == "yilmaz2024_wz":
            enc, dec = W.Yilmaz2024DeepJSCCWZEncoder(N, Mm), W.Yilmaz2024DeepJSCCWZDecoder(N, Mm)
            encode = lambda x: enc(x, csi(x))  # noqa: E731
        elif name == "yilmaz2024_wz_small":
            enc = W.Yilmaz2024DeepJSCCWZSmallEncoder(N, Mm)
            dec = W.Yilmaz2024DeepJSCCWZSmallDecoder(N, Mm, enc)
            encode = lambda x: enc(x, csi(x))  # noqa: E731
        else:
            enc, dec = W.Yilmaz2024DeepJSCCWZConditionalEncoder(N, Mm), W.Yilmaz2024DeepJSCCWZConditionalDecoder(N, Mm)
            encode = lambda x: enc(x, x.new_zeros(x.shape), csi(x))  # noqa: E731
        f, fs = _doc_int(type(enc).forward.__doc__, r"H\s*/\s*(\d+)", f"{type(enc).__name__}.forward docstring 'Shape: [B, M, H/16, W/16]'")
        return Pair(name, enc, dec, list(enc.g_a), encode, lambda z, x: dec(z, x.new_zeros(x.shape), csi(x)), lambda z, f_: dec(z, side_for(z, f_), csi(z)), Mm, Mm,
                    "constructor argument M ('Number of output channels in the final latent representation')", f, fs,
                    note="side information of the input's shape and csi [B,1,1,1] are supplied; no output range documented; last decoder layer is a ResidualBlock: range clause not applicable")
    raise KeyError(name)


PAIR_FUNCS = {
    "bourtsoulatze2019": IMG + "bourtsoulatze2019_deepjscc.py:Bourtsoulatze2019DeepJSCCEncoder.forward; " + IMG + "bourtsoulatze2019_deepjscc.py:Bourtsoulatze2019DeepJSCCDecoder.forward; " + IMG + "bourtsoulatze2019_deepjscc.py:Bourtsoulatze2019DeepJSCCEncoder.__init__; " + IMG + "bourtsoulatze2019_deepjscc.py:Bourtsoulatze2019DeepJSCCDecoder.__init__",
    "tung2022_q": IMG + "tung2022_deepjscc_q.py:Tung2022DeepJSCCQEncoder.forward; " + IMG + "tung2022_deepjscc_q.py:Tung2022DeepJSCCQDecoder.forward; " + IMG + "tung2022_deepjscc_q.py:Tung2022DeepJSCCQEncoder.__init__; " + IMG + "tung2022_deepjscc_q.py:Tung2022DeepJSCCQDecoder.__init__",
    "tung2022_q2": IMG + "tung2022_deepjscc_q.py:Tung2022DeepJSCCQ2Encoder.forward; " + IMG + "tung2022_deepjscc_q.py:Tung2022DeepJSCCQ2Decoder.forward; " + IMG + "tung2022_deepjscc_q.py:Tung2022DeepJSCCQ2Encoder.__init__; " + IMG + "tung2022_deepjscc_q.py:Tung2022DeepJSCCQ2Decoder.__init__; kaira/models/components/afmodule.py:AFModule.forward",
    "kurka2020": IMG + "kurka2020_deepjscc_feedback.py:DeepJSCCFeedbackEncoder.forward; " + IMG + "kurka2020_deepjscc_feedback.py:DeepJSCCFeedbackDecoder.forward; " + IMG + "kurka2020_deepjscc_feedback.py:DeepJSCCFeedbackModel.forward; " + IMG + "kurka2020_deepjscc_feedback.py:DeepJSCCFeedbackEncoder.__init__; " + IMG + "kurka2020_deepjscc_feedback.py:DeepJSCCFeedbackDecoder.__init__",
    "yilmaz2023_noma": IMG + "yilmaz2023_deepjscc_noma.py:Yilmaz2023DeepJSCCNOMAEncoder.__init__; " + IMG + "yilmaz2023_deepjscc_noma.py:Yilmaz2023DeepJSCCNOMADecoder.__init__; " + IMG + "tung2022_deepjscc_q.py:Tung2022DeepJSCCQ2Encoder.forward; " + IMG + "tung2022_deepjscc_q.py:Tung2022DeepJSCCQ2Decoder.forward; kaira/models/components/afmodule.py:AFModule.forward",
    "yilmaz2024_wz": IMG + "yilmaz2024_deepjscc_wz.py:Yilmaz2024DeepJSCCWZEncoder.forward; " + IMG + "yilmaz2024_deepjscc_wz.py:Yilmaz2024DeepJSCCWZDecoder.forward; kaira/models/components/afmodule.py:AFModule.forward",
    "yilmaz2024_wz_small": IMG + "yilmaz2024_deepjscc_wz.py:Yilmaz2024DeepJSCCWZSmallEncoder.forward; " + IMG + "yilmaz2024_deepjscc_wz.py:Yilmaz2024DeepJSCCWZSmallDecoder.forward; kaira/models/components/afmodule.py:AFModule.forward",
    "yilmaz2024_wz_cond": IMG + "yilmaz2024_deepjscc_wz.py:Yilmaz2024DeepJSCCWZConditionalEncoder.forward; " + IMG + "yilmaz2024_deepjscc_wz.py:Yilmaz2024DeepJSCCWZConditionalDecoder.forward; kaira/models/components/afmodule.py:AFModule.forward",
}
PAIR_WIDTHS = {
    "bourtsoulatze2019": {"quick": ["c=8"], "thorough": ["c=8", "c=16"]},
    "tung2022_q": {"quick": ["N=8,M=4"], "thorough": ["N=8,M=4", "N=16,M=6"]},
    "tung2022_q2": {"quick": ["N=8,M=4"], "thorough": ["N=8,M=4", "N=16,M=6"]},
    "kurka2020": {"quick": ["conv_depth=8"], "thorough": ["conv_depth=8", "conv_depth=16"]},
    "yilmaz2023_noma": {"quick": ["N=8,M=4"], "thorough": ["N=8,M=4", "N=16,M=6"]},
    "yilmaz2024_wz": {"quick": ["N=8,M=4"], "thorough": ["N=8,M=4", "N=16,M=6"]},
    "yilmaz2024_wz_small": {"quick": ["N=8,M=4"], "thorough": ["N=8,M=4", "N=16,M=6"]},
    "yilmaz2024_wz_cond": {"quick": ["N=8,M=4"], "thorough": ["N=8,M=4", "N=16,M=6"]},
}


def parse_cfg(cfg):
    """'name[k=v,...]|tier[|part]' -> (name, params, tier)"""
    head, _, tier = cfg.partition("|")
    tier = tier.split("|")[0]
    name, _, rest = head.partition("[")
    params = {}
    for kv in rest.rstrip("]").split(","):
        if "=" in kv:
            k, v = kv.split("=")
            params[k.strip()] = int(v)
    return name, params, tier or "quick"


def _base(spec, cfg):
    return dict(prop="C19", config=str(cfg), function=spec.function)


def _ground(spec, cfg, clause, ok, detail, witness=None, undecided=False):
    r = ObResult(ob=f"{spec.id}/{clause}", engine="E3", backend="ground", kind="ground", **_base(spec, cfg))
    r.verdict = "discharged" if ok else ("undecided" if undecided else "refuted")
    r.detail = detail
    if not ok and not undecided:
        r.witness = witness or {"observed": detail}
        r.replay_confirmed = True
    return r


# ------------------------------------------------------------------------------------------------ shape contract
def shape_results(spec, cfg, mods=None, timeout_ms=20000):
    """All C19.shape_<model> clauses for one configuration (also used by the self-test with mutated modules)."""
    t0 = time.time()
    name, params, tier = parse_cfg(cfg)
    part = cfg.split("|")[2] if cfg.count("|") >= 2 else "all"  # 'pair' | 'dec' | 'all': the two proofs are separate jobs
    torch.manual_seed(0)
    P = build_pair(name, params, mods)
    P.enc.eval()
    P.dec.eval()
    base = _base(spec, cfg)
    out = []
    L, desc, problems = E3.stride2_stages(P.stages)
    f = 2**L
    f_doc = P.f_doc if P.f_doc is not None else f
    out.append(
        _ground(
            spec, cfg, "stride_stages", not problems,
            f"L={L} stride-2 stages on the encoder main path read from the real module ({', '.join(desc)}); admissibility precondition: B>=1, {f} | H, {f} | W (so H,W >= {f}). "
            f"Documented latent channels C_doc={P.c_doc} [{P.c_src}]; documented spatial factor f_doc={P.f_doc} [{P.f_src}]; documented bandwidth ratio = C_doc/(3*f_doc^2) = {Fraction(P.c_doc, 3 * f_doc * f_doc)}. {P.note}"
            + (f" PROBLEMS: {problems}" if problems else ""),
            undecided=bool(problems),
        )
    )
    if problems:
        return out
    if part == "dec":
        out = []

    def pre(d):
        return [d["B"] >= 1, d["H"] >= 1, d["W"] >= 1, d["H"] % f == 0, d["W"] % f == 0]

    def run(x):
        z = P.encode(x)
        return {"latent": z, "decoded": P.decode(z, x)}

    def c_round(o, d):
        return list(zip(o["decoded"], (d["B"], P.out_ch, d["H"], d["W"]))) + [(len(o["decoded"]), 4)]

    def c_latent(o, d):
        hh, ww = E3.Shp.div(d["H"], f_doc), E3.Shp.div(d["W"], f_doc)
        return list(zip(o["latent"], (d["B"], P.c_doc, hh, ww))) + [(hh * f_doc, d["H"]), (ww * f_doc, d["W"])] + [(len(o["latent"]), 4)]

    def c_ratio(o, d):
        lat = o["latent"]
        return [(3 * f_doc * f_doc * (lat[1] * lat[2] * lat[3]), P.c_doc * 3 * d["H"] * d["W"])]

    def canary(o, d):
        return [(o["decoded"][2], d["H"] + 1)]

    prob = E3.ShapeProblem(names=("B", "C", "H", "W"), channels={1: P.in_ch}, pre=pre, run=run, clauses={"roundtrip_shape": c_round, "latent_dims": c_latent, "latent_ratio": c_ratio}, canary=canary, nonlinear={"latent_ratio": ("latent",)}, mkldnn=(tier == "thorough"), max_cases=(200 if tier == "thorough" else 48))
    sizes = THOROUGH_SIZES if tier == "thorough" else QUICK_SIZES
    sizes = [s for s in sizes if s[1] % f == 0 and s[2] % f == 0] or [(1, f, 2 * f), (2, 2 * f, f)]
    res = []
    try:
        if part != "dec":
            res = E3.prove_shapes(prob, base, spec.id, timeout_ms=timeout_ms)
    except Exception as e:  # engine crash
        r = ObResult(ob=f"{spec.id}/symbolic_run", engine="E3", backend="z3", kind="proof", verdict="error", detail=E3.fmt_exc(e), **base)
        return out + [r]
    symfail = [r for r in res if r.ob.endswith("/symbolic_run") and r.verdict == "undecided"]
    if part == "dec":
        pass
    elif symfail:
        # forward defeats FakeTensorMode/ShapeEnv (or the case budget): bounded check with the reason recorded
        grid = [(b, h, w) for b in (1, 2, 5) for (h, w) in ((16, 16), (32, 32), (48, 48), (64, 64)) if h % f == 0]
        out += E3.bounded_shapes(prob, grid, base, spec.id, reason=symfail[0].detail)
    else:
        out += res
        try:
            out.append(E3.native_crosscheck(prob, sizes, base, f"{spec.id}/native_crosscheck"))
        except Exception as e:
            out.append(ObResult(ob=f"{spec.id}/native_crosscheck", engine="E3", backend="native", kind="bounded", verdict="error", detail=E3.fmt_exc(e), **base))

    # decoder alone, for every latent size
    def pre_d(d):
        return [d["B"] >= 1, d["h"] >= 1, d["w"] >= 1]

    def run_d(z):
        return {"decoded": P.decode_latent(z, f)}

    def c_dec(o, d):
        return list(zip(o["decoded"], (d["B"], P.out_ch, f * d["h"], f * d["w"]))) + [(len(o["decoded"]), 4)]

    prob_d = E3.ShapeProblem(names=("B", "C", "h", "w"), channels={1: P.dec_in_ch}, pre=pre_d, run=run_d, clauses={"decoder_shape": c_dec}, canary=lambda o, d: [(o["decoded"][2], f * d["h"] + 1)], mkldnn=(tier == "thorough"), max_cases=(200 if tier == "thorough" else 48))
    try:
        res_d = E3.prove_shapes(prob_d, base, spec.id, timeout_ms=timeout_ms, label="dec_") if part != "pair" else []
        if any(r.ob.endswith("symbolic_run") for r in res_d):
            res_d = E3.bounded_shapes(prob_d, [(b, h, w) for b in (1, 2, 5) for h in (1, 2, 3, 4) for w in (1, 4)], base, spec.id, reason=res_d[0].detail)
        out += res_d
    except Exception as e:
        out.append(ObResult(ob=f"{spec.id}/dec_symbolic_run", engine="E3", backend="z3", kind="proof", verdict="error", detail=E3.fmt_exc(e), **base))

    # value range
    if P.range_doc is not None and part != "dec":
        lo, hi, src = P.range_doc
        fl = P.final_layer
        ok = isinstance(fl, torch.nn.Sigmoid) and (lo, hi) == (0.0, 1.0)
        out.append(_ground(spec, cfg, "range_activation", ok, f"documented range [{lo},{hi}] ({src}); last layer of the real decoder is {type(fl).__name__}" + ("" if ok else " - NOT the documented bounded activation"), witness={"final_layer": type(fl).__name__}))
        r = ObResult(ob=f"{spec.id}/range_native", engine="E3", backend="native", kind="bounded", **base)
        tn = time.time()
        bad, n = None, 0
        with torch.no_grad():
            for (b, h, w) in sizes[: (6 if tier == "thorough" else 2)]:
                for scale in (1.0, 50.0):
                    torch.manual_seed(n)
                    x = torch.randn(b, P.in_ch, h, w) * scale
                    y = P.decode(P.encode(x), x)
                    n += 1
                    mn, mx = float(y.min()), float(y.max())
                    if not (bool(torch.isfinite(y).all()) and mn >= lo and mx <= hi) and bad is None:
                        bad = {"B": b, "H": h, "W": w, "input_scale": scale, "seed": n - 1, "observed_min": mn, "observed_max": mx, "required": [lo, hi]}
        r.verdict, r.paths, r.witness, r.replay_confirmed = ("discharged" if bad is None else "refuted"), n, bad, (True if bad else None)
        r.detail = f"bounded: {n} random inputs (scales 1 and 50), outputs finite and within [{lo},{hi}]" + (f" | FAILS: {bad}" if bad else "")
        r.wall_s = round(time.time() - tn, 3)
        out.append(r)
    if out:
        out[0].wall_s = round(time.time() - t0, 3)
    return out


def _register_shape(model):
    @obligation(f"C19.shape_{model}", function=PAIR_FUNCS[model], configs=lambda tier, m=model: [f"{m}[{w}]|{tier}|{part}" for w in PAIR_WIDTHS[m][tier] for part in ("pair", "dec")], kind="custom", engine="E3")
    def body(spec, cfg, tier, seed):
        return shape_results(spec, cfg)

    return body


for _model in PAIR_FUNCS:
    _register_shape(_model)


# ------------------------------------------------------------------------------------------------ model-level wrappers (bounded)
def _bounded_model(spec, cfg, build_and_run, reason):
    name, params, tier = parse_cfg(cfg)
    sizes = [(b, s, s) for b in (1, 2, 5) for s in (16, 32, 48, 64)] if tier == "thorough" else [(1, 16, 16), (2, 32, 32), (5, 16, 16)]
    r = ObResult(ob=f"{spec.id}/output_shape", engine="E3", backend="native", kind="bounded", **_base(spec, cfg))
    t0 = time.time()
    bad, n = None, 0
    for (b, h, w) in sizes:
        torch.manual_seed(n)
        try:
            with torch.no_grad():
                got, want = build_and_run(b, h, w)
        except Exception as e:
            got, want = f"{type(e).__name__}: {str(e)[:200]}", "runs"
        n += 1
        if got != want and bad is None:
            bad = {"B": b, "H": h, "W": w, "observed": str(got), "required": str(want)}
    r.verdict, r.paths, r.witness, r.replay_confirmed = ("discharged" if bad is None else "refuted"), n, bad, (True if bad else None)
    r.detail = f"bounded ({n} sizes x batches) because the forward defeats FakeTensorMode/ShapeEnv: {reason}" + (f" | FAILS: {bad}" if bad else "")
    r.wall_s = round(time.time() - t0, 3)
    return [r]


@obligation("C19.shape_yilmaz2023_noma_model", function=IMG + "yilmaz2023_deepjscc_noma.py:Yilmaz2023DeepJSCCNOMAModel.forward; " + IMG + "yilmaz2023_deepjscc_noma.py:Yilmaz2023DeepJSCCNOMAModel.__init__",
            configs=lambda tier: [f"noma_model[shared_encoder={s},perfect_sic={c}]|{tier}" for (s, c) in ((0, 0), (1, 0), (0, 1))], kind="custom", engine="E3")
def noma_model(spec, cfg, tier, seed):
    from kaira.channels import AWGNChannel
    from kaira.constraints import AveragePowerConstraint
    from kaira.models.image.yilmaz2023_deepjscc_noma import Yilmaz2023DeepJSCCNOMAModel

    _, p, _ = parse_cfg(cfg)
    shared, sic = bool(p.get("shared_encoder", 0)), bool(p.get("perfect_sic", 0))

    def go(b, h, w):
        # default widths (N=64, latent_dim=16): the wrapper does not forward N / latent_dim to the encoders it builds
        m = Yilmaz2023DeepJSCCNOMAModel(AWGNChannel(snr_db=10.0), AveragePowerConstraint(1.0), num_devices=2, shared_encoder=shared, use_perfect_sic=sic, use_device_embedding=True, image_shape=(h, w))
        x = torch.rand(b, 2, 3, h, w) if sic else [torch.rand(b, 3, h, w), torch.rand(b, 3, h, w)]
        y = m(x, csi=torch.rand(b, 1))
        return tuple(y.shape), (b, 2, 3, h, w)

    return _bounded_model(spec, cfg, go, "GuardOnDataDependentSymNode at kaira/constraints/power.py (`if torch.any(zero_mask)`), and the device embedding is .view()-ed to the fixed constructor image_shape; documented output '[batch_size, num_devices, channels, height, width]'")


@obligation("C19.shape_yilmaz2024_wz_model", function=IMG + "yilmaz2024_deepjscc_wz.py:Yilmaz2024DeepJSCCWZModel.forward",
            configs=lambda tier: [f"wz_model[variant={v}]|{tier}" for v in (0, 1, 2)], kind="custom", engine="E3")
def wz_model(spec, cfg, tier, seed):
    from kaira.channels import AWGNChannel
    from kaira.constraints import TotalPowerConstraint
    from kaira.models.image import yilmaz2024_deepjscc_wz as W

    _, p, _ = parse_cfg(cfg)
    v = p.get("variant", 0)
    if v == 0:
        enc, dec = W.Yilmaz2024DeepJSCCWZEncoder(8, 4), W.Yilmaz2024DeepJSCCWZDecoder(8, 4)
    elif v == 1:
        enc = W.Yilmaz2024DeepJSCCWZSmallEncoder(8, 4)
        dec = W.Yilmaz2024DeepJSCCWZSmallDecoder(8, 4, enc)
    else:
        enc, dec = W.Yilmaz2024DeepJSCCWZConditionalEncoder(8, 4), W.Yilmaz2024DeepJSCCWZConditionalDecoder(8, 4)
    m = W.Yilmaz2024DeepJSCCWZModel(enc, AWGNChannel(snr_db=10.0), dec, TotalPowerConstraint(1.0))

    def go(b, h, w):
        y = m(torch.rand(b, 3, h, w), torch.rand(b, 3, h, w), csi=torch.rand(b, 1, 1, 1))
        return tuple(y.shape), (b, 3, h, w)

    return _bounded_model(spec, cfg, go, "GuardOnDataDependentSymNode at kaira/constraints/power.py (data-dependent `if current_power < 1e-10` / `torch.any(zero_mask)`); the encoder/decoder pair itself is proved in C19.shape_yilmaz2024_wz*")


# ------------------------------------------------------------------------------------------------ calculate_num_filters_factor_image
@obligation("C19.num_filters", function="kaira/utils/__init__.py:calculate_num_filters_factor_image", configs=lambda tier: [f"L={L}|{tier}" for L in range(0, 5 if tier == "quick" else 7)], kind="custom", engine="E3")
def num_filters(spec, cfg, tier, seed, fn=None):
    if fn is None:
        from kaira.utils import calculate_num_filters_factor_image as fn
    L = int(cfg.split("|")[0].split("=")[1])
    tier = cfg.split("|")[1]
    base = _base(spec, cfg)
    out = []
    note = ("float-based: `res = base_filters * bw_ratio; assert res.is_integer(); return int(res)`. Proved over the REALS from the AST re-read from the real source "
            "(floats treated as reals, DESIGN 4.1); the float behaviour is covered by the bounded clause only")
    for cplx in (False, True):
        t0 = time.time()
        r = ObResult(ob=f"{spec.id}/formula_complex={int(cplx)}", engine="E3", backend="z3", kind="proof", **base)
        try:
            bw, ch = z3.Real("bw_ratio"), z3.Int("channels")
            ms = E3.MiniSym(fn, {"num_strided_layers": L, "bw_ratio": bw, "channels": ch, "is_complex_transmission": cplx})
            ret = ms.run()
            h, w = z3.Ints("h w")
            k = 2 if cplx else 1
            pre = [ch >= 1, bw > 0, h >= 1, w >= 1] + [z3.IsInt(a) for a in ms.asserts]
            claims = {
                "value": ret == z3.ToReal(ch) * (4**L) * bw * k,
                "latent_numel == k*bw_ratio*image_numel": ret * z3.ToReal(h) * z3.ToReal(w) == k * bw * z3.ToReal(ch) * z3.ToReal((2**L) * h) * z3.ToReal((2**L) * w),
                "integral_and_positive": z3.And(z3.IsInt(ret), ret >= 1),
            }
            s = z3.Solver()
            s.set("timeout", 20000)
            s.add(*pre)
            tq = time.time()
            cover = s.check()
            bad = None
            for cn, c in claims.items():
                s.push()
                s.add(z3.Not(c))
                rr = s.check()
                s.pop()
                if rr != z3.unsat:
                    bad = (cn, rr, s.model() if rr == z3.sat else None)
                    break
            s.push()
            s.add(z3.Not(ret == z3.ToReal(ch) * (4**L) * bw * k + 1))
            canary = s.check()
            s.pop()
            r.solver_s = round(time.time() - tq, 3)
            r.queries = len(claims) + 2
            if cover != z3.sat or canary != z3.sat:
                r.verdict, r.detail = "error", f"vacuity guard failed: cover={cover} canary={canary}"
            elif bad is None:
                r.verdict = "discharged"
                r.detail = f"for all channels>=1, bw_ratio>0 with the function's own integrality assertion: result = channels*4^{L}*bw_ratio*{k}, and result*(H/2^{L})*(W/2^{L}) = {k}*bw_ratio*channels*H*W for all H,W multiples of 2^{L}; cover sat, canary refuted. " + note
            elif bad[1] == z3.sat:
                # replay natively
                mdl = bad[2]
                bwv = mdl.eval(bw, model_completion=True)
                chv = mdl.eval(ch, model_completion=True).as_long()
                bwf = float(bwv.numerator_as_long()) / float(bwv.denominator_as_long())
                got = fn(L, bwf, chv, cplx)
                want = chv * 4**L * bwf * k
                r.witness = {"L": L, "bw_ratio": bwf, "channels": chv, "complex": cplx, "observed": got, "required": want, "clause": bad[0]}
                if got != want:
                    r.verdict, r.replay_confirmed = "refuted", True
                else:
                    r.verdict = "undecided"
                r.detail = f"clause {bad[0]}: z3 model replayed on the real function: observed {got}, required {want}"
            else:
                r.verdict, r.detail = "undecided", f"solver unknown on clause {bad[0]}"
        except E3.Untranslatable as e:
            r.verdict, r.detail = "undecided", f"source outside the straight-line arithmetic fragment: {e}"
        except Exception as e:
            r.verdict, r.detail = "error", E3.fmt_exc(e)
        r.wall_s = round(time.time() - t0, 3)
        out.append(r)
    # bounded, native floats: every exactly representable target filter count is returned exactly
    t0 = time.time()
    r = ObResult(ob=f"{spec.id}/native_floats", engine="E3", backend="native", kind="bounded", **base)
    n, bad, raised = 0, None, []
    for ch in (1, 3, 4):
        for cplx in (False, True):
            for target in range(1, 65 if tier == "quick" else 257):
                k = 2 if cplx else 1
                if target % k:
                    continue
                bwf = (target // k) / (ch * 4**L)
                n += 1
                try:
                    got = fn(L, bwf, ch, cplx)
                except AssertionError as e:
                    raised.append((ch, cplx, target, str(e)[:60]))
                    continue
                if (got != target or not isinstance(got, int)) and bad is None:
                    bad = {"L": L, "channels": ch, "complex": cplx, "bw_ratio": bwf, "observed": got, "required": target}
    r.paths = n
    if bad is not None:
        r.verdict, r.witness, r.replay_confirmed = "refuted", bad, True
        r.detail = f"bounded: real function returns a wrong filter count: {bad}"
    else:
        r.verdict = "discharged"
        r.detail = f"bounded: {n} (channels, complex, target filters) with bw_ratio = target/(k*channels*4^{L}) computed in float64: returned value == target in every case that does not raise; " \
                   f"{len(raised)} cases raise the function's own AssertionError because float rounding makes base*bw_ratio non-integral" + (f" (first: {raised[0]})" if raised else "")
    r.wall_s = round(time.time() - t0, 3)
    out.append(r)
    return out


# ------------------------------------------------------------------------------------------------ channels and constraints
def _nl_cubic(x):
    return x + 0.2 * x**3


def _nl_mag(x):
    return x * (1 - 0.1 * x)


CH = "kaira/channels/analog.py:"
PW = "kaira/constraints/power.py:"
SNR = "kaira/utils/snr.py:snr_to_noise_power; kaira/utils/snr.py:snr_db_to_linear"


def stage_catalog(mods=None):
    """class key -> (class, function string, {variant: constructor thunk}, input shapes)"""
    A = _m("kaira.channels.analog", mods)
    Pm = _m("kaira.constraints.power", mods)
    An = _m("kaira.constraints.antenna", mods)
    sh = [(2, 3, 2), (1, 6), (6,)]
    return {
        "AWGNChannel": (A.AWGNChannel, CH + "AWGNChannel.forward; " + CH + "_apply_noise; " + SNR, {"snr_db=10": lambda: A.AWGNChannel(snr_db=10.0), "avg_noise_power=0.1": lambda: A.AWGNChannel(avg_noise_power=0.1)}, sh),
        "LaplacianChannel": (A.LaplacianChannel, CH + "LaplacianChannel.forward; " + CH + "LaplacianChannel._get_laplacian_noise; " + SNR,
                             {"scale=0.3": lambda: A.LaplacianChannel(scale=0.3), "snr_db=10": lambda: A.LaplacianChannel(snr_db=10.0), "avg_noise_power=0.1": lambda: A.LaplacianChannel(avg_noise_power=0.1)}, sh),
        "PhaseNoiseChannel": (A.PhaseNoiseChannel, CH + "PhaseNoiseChannel.forward", {"std=0.2": lambda: A.PhaseNoiseChannel(0.2)}, sh),
        "FlatFadingChannel": (A.FlatFadingChannel, CH + "FlatFadingChannel.forward; " + CH + "FlatFadingChannel._generate_fading_coefficients; " + CH + "FlatFadingChannel._expand_coefficients; " + SNR,
                              {"rayleigh,L=2,snr_db=10": lambda: A.FlatFadingChannel("rayleigh", 2, snr_db=10.0), "rician,L=3,K=2,avg_noise_power=0.1": lambda: A.FlatFadingChannel("rician", 3, k_factor=2.0, avg_noise_power=0.1),
                               "lognormal,L=2,sigma=4,snr_db=10": lambda: A.FlatFadingChannel("lognormal", 2, shadow_sigma_db=4.0, snr_db=10.0)}, sh),
        "RayleighFadingChannel": (A.RayleighFadingChannel, CH + "RayleighFadingChannel.__init__; " + CH + "FlatFadingChannel.forward", {"L=1,snr_db=10": lambda: A.RayleighFadingChannel(coherence_time=1, snr_db=10.0), "L=2,avg_noise_power=0.1": lambda: A.RayleighFadingChannel(coherence_time=2, avg_noise_power=0.1)}, sh),
        "RicianFadingChannel": (A.RicianFadingChannel, CH + "RicianFadingChannel.__init__; " + CH + "FlatFadingChannel.forward", {"K=2,L=2,snr_db=8": lambda: A.RicianFadingChannel(k_factor=2.0, coherence_time=2, snr_db=8.0)}, sh),
        "LogNormalFadingChannel": (A.LogNormalFadingChannel, CH + "LogNormalFadingChannel.__init__; " + CH + "FlatFadingChannel.forward", {"sigma=4,L=3,avg_noise_power=0.1": lambda: A.LogNormalFadingChannel(shadow_sigma_db=4.0, coherence_time=3, avg_noise_power=0.1)}, sh),
        "NonlinearChannel": (A.NonlinearChannel, CH + "NonlinearChannel.forward; " + CH + "_apply_noise; " + SNR,
                             {"cubic": lambda: A.NonlinearChannel(_nl_cubic), "cubic+noise,snr_db=10": lambda: A.NonlinearChannel(_nl_cubic, add_noise=True, snr_db=10.0), "cubic,cartesian": lambda: A.NonlinearChannel(_nl_cubic, complex_mode="cartesian"),
                              "mag,polar+noise,avg_noise_power=0.05": lambda: A.NonlinearChannel(_nl_mag, complex_mode="polar", add_noise=True, avg_noise_power=0.05)}, sh),
        "TotalPowerConstraint": (Pm.TotalPowerConstraint, PW + "TotalPowerConstraint.forward; " + PW + "TotalPowerConstraint._apply_constraint_to_single_item", {"P=1.5": lambda: Pm.TotalPowerConstraint(1.5)}, sh),
        "AveragePowerConstraint": (Pm.AveragePowerConstraint, PW + "AveragePowerConstraint.forward; " + PW + "AveragePowerConstraint._apply_constraint_to_single_item", {"P=0.8": lambda: Pm.AveragePowerConstraint(0.8)}, sh),
        "PAPRConstraint": (Pm.PAPRConstraint, PW + "PAPRConstraint.forward; " + PW + "PAPRConstraint._apply_constraint_to_single_item", {"max_papr=50 (never clips)": lambda: Pm.PAPRConstraint(50.0), "max_papr=2 (clipping)": lambda: Pm.PAPRConstraint(2.0), "max_papr=3 (default)": lambda: Pm.PAPRConstraint()}, [(2, 3, 2), (1, 6), (3, 8)]),
        "PerAntennaPowerConstraint": (An.PerAntennaPowerConstraint, "kaira/constraints/antenna.py:PerAntennaPowerConstraint.forward", {"uniform=0.7": lambda: An.PerAntennaPowerConstraint(uniform_power=0.7), "budget=[0.5,1,1.5]": lambda: An.PerAntennaPowerConstraint(power_budget=torch.tensor([0.5, 1.0, 1.5]))}, [(2, 3, 2), (2, 3, 2, 2)]),
    }


_CAT = stage_catalog()
TAINT_LIMITS = ("backend ast-taint: AST of the real source re-read on every run; taint = values computed from the forward input's VALUES (shapes/dtypes/devices are not taint); flow-insensitive fixpoint (loops included), "
                "intra-procedural with calls into other kaira functions followed up to depth 3 (methods resolved on the concrete class); isinstance(v, Tensor) tests refine v in their branches; "
                "NOT seen: aliasing / in-place writes through detached aliases, control dependence (comparisons, masks: the kinks the property excludes), behaviour of torch ops themselves (assumed autograd-recording), user-supplied callables")
STRICT = dict(eps=1e-6, atol=1e-5, rtol=1e-3)
COARSE = dict(eps=1e-3, atol=5e-4, rtol=2e-3)


def _mk_input(shape, cplx, seed):
    g = torch.Generator().manual_seed(seed)
    x = torch.randn(*shape, dtype=torch.float64, generator=g)
    if cplx:
        x = torch.complex(x, torch.randn(*shape, dtype=torch.float64, generator=g))
    return x


def nodetach_results(spec, cfg, cls, variants, shapes, extra_modules=()):
    t0 = time.time()
    base = _base(spec, cfg)
    out = []
    try:
        findings, ta = E3.taint_check_forward(cls, extra_modules=extra_modules)
    except Exception as e:
        return [ObResult(ob=f"{spec.id}/no_detach", engine="E3", backend="ast-taint", kind="proof", verdict="error", detail=E3.fmt_exc(e), **base)]
    followed = f"analysed: {', '.join(ta.followed)}" + (f"; not followed: {sorted(set(ta.not_followed))}" if ta.not_followed else "") + (f"; notes: {ta.notes}" if ta.notes else "")
    if not findings:
        r = ObResult(ob=f"{spec.id}/no_detach", engine="E3", backend="ast-taint", kind="proof", verdict="discharged", **base)
        r.paths = len(ta.followed)
        r.detail = f"no detach/item/float/int/re-wrap/.data/numpy/integer-cast/no_grad applied to a value that depends on the forward input. {followed}. {TAINT_LIMITS}"
        r.wall_s = round(time.time() - t0, 3)
        return [r]
    # a flagged use is reported as a violation only if the lost gradient is reproduced natively on the real class
    native = None
    for vname, mk in variants.items():
        for shape in shapes:
            for cplx in (False, True):
                try:
                    m = mk()
                    x = _mk_input(shape, cplx, 7)
                    ok, err, ref, where = E3.jacobian_check(E3.frozen(m, 1234), x, **COARSE)
                    if not ok:
                        native = {"variant": vname, "shape": list(shape), "complex": cplx, "input_seed": 7, "rng_seed": 1234, "max_abs_err": err, "entry(out,in,autograd,finite_diff)": list(where)}
                        break
                except Exception as e:
                    native = {"variant": vname, "shape": list(shape), "complex": cplx, "input_seed": 7, "error": f"{type(e).__name__}: {str(e)[:200]}"}
                    break
            if native:
                break
        if native:
            break
    for f_ in findings:
        r = ObResult(ob=f"{spec.id}/taint@{f_.file.split('/kaira/')[-1] if '/kaira/' in f_.file else f_.file.rsplit('/', 1)[-1]}:{f_.line}", engine="E3", backend="ast-taint", kind="proof", **base)
        r.witness = {"file": f_.file, "line": f_.line, "function": f_.func, "what": f_.what, "code": f_.code, "native": native}
        if native is not None:
            r.verdict, r.replay_confirmed = "refuted", True
            r.detail = f"{f_} | native confirmation on the real class: autograd Jacobian != finite differences under a frozen RNG: {native}"
        else:
            r.verdict = "undecided"
            r.detail = f"{f_} | flagged by the taint analysis but NOT reproduced natively (Jacobian matches finite differences on all variants): possible false positive. {followed}"
        r.wall_s = round(time.time() - t0, 3)
        out.append(r)
    return out


def gradcheck_results(spec, cfg, mk, shapes, tier):
    """ground: leaf reachable in the real autograd graph; bounded: backward runs, Jacobian == finite differences"""
    base = _base(spec, cfg)
    t0 = time.time()
    seeds = range(2) if tier != "thorough" else range(6)
    reach_bad, nodes, nreach = None, 0, 0
    gbad, n, coarse_only, worst = None, 0, [], 0.0
    for shape in shapes:
        for cplx in (False, True):
            for sd in seeds:
                x = _mk_input(shape, cplx, 100 + sd)
                rng = 4321 + sd
                try:
                    m = mk()
                    f = E3.frozen(m, rng)
                    xs = x.clone().requires_grad_(True)
                    o = f(xs)
                    ok_r, nn = E3.leaf_reachable(o, xs)
                    nodes += nn
                    nreach += 1
                    if not ok_r and reach_bad is None:
                        reach_bad = {"shape": list(shape), "complex": cplx, "input_seed": 100 + sd}
                    n += 1
                    strict = torch.autograd.gradcheck(f, (x.clone().requires_grad_(True),), raise_exception=False, **STRICT)
                    if not strict:
                        ok, err, ref, where = E3.jacobian_check(f, x, **COARSE)
                        worst = max(worst, err)
                        if ok:
                            coarse_only.append((tuple(shape), cplx, sd))
                        elif gbad is None:
                            gbad = {"shape": list(shape), "complex": cplx, "input_seed": 100 + sd, "rng_seed": rng, "max_abs_err": err, "entry(out,in,autograd,finite_diff)": list(where)}
                except Exception as e:
                    if gbad is None:
                        gbad = {"shape": list(shape), "complex": cplx, "input_seed": 100 + sd, "rng_seed": rng, "error": f"{type(e).__name__}: {str(e)[:260]}"}
    # inputs with exactly-zero samples (null sub-carriers, padding, ReLU latents) next to one large peak: backward must run and every
    # gradient entry must be finite (0 * inf from an unguarded division shows up here and nowhere on dense random inputs)
    zbad, nz = None, 0
    for shape in shapes:
        for cplx in (False, True):
            x = _mk_input(shape, cplx, 777)
            flat = x.reshape(-1)
            flat[::3] = 0
            flat[1] = flat[1] * 25 + 10
            try:
                m = mk()
                f = E3.frozen(m, 999)
                xs = x.clone().requires_grad_(True)
                o = f(xs)
                (o.abs() ** 2).sum().backward()
                nz += 1
                if xs.grad is None or not bool(torch.isfinite(torch.view_as_real(xs.grad) if xs.grad.is_complex() else xs.grad).all()):
                    zbad = zbad or {"shape": list(shape), "complex": cplx, "non_finite_entries": int((~torch.isfinite(torch.view_as_real(xs.grad) if xs.grad.is_complex() else xs.grad)).sum()) if xs.grad is not None else "no gradient"}
            except Exception as e:
                zbad = zbad or {"shape": list(shape), "complex": cplx, "error": f"{type(e).__name__}: {str(e)[:200]}"}
    r3 = ObResult(ob=f"{spec.id}/gradient_finite_with_exact_zeros", engine="E3", backend="native", kind="bounded", **base)
    r3.paths = nz
    if zbad is None:
        r3.verdict, r3.detail = "discharged", f"bounded: {nz} float64 inputs (real and complex, shapes {shapes}) with every third sample exactly 0 and one 25x peak: backward of sum |f(x)|^2 is finite everywhere"
    else:
        r3.verdict, r3.witness, r3.replay_confirmed, r3.detail = "refuted", zbad, True, f"non-finite gradient on an input with exactly-zero samples: {zbad}"
    r1 = ObResult(ob=f"{spec.id}/leaf_reachable", engine="E3", backend="ground", kind="ground", **base)
    r1.paths = nreach
    if nreach == 0:
        r1.verdict, r1.detail = "error", "forward never completed"
    elif reach_bad is None:
        r1.verdict, r1.detail = "discharged", f"input leaf (AccumulateGrad) reachable from out.grad_fn in the real autograd graph in {nreach} runs ({nodes} graph nodes walked)"
    else:
        r1.verdict, r1.witness, r1.replay_confirmed, r1.detail = "refuted", reach_bad, True, f"input leaf NOT reachable from out.grad_fn: {reach_bad}"
    r2 = ObResult(ob=f"{spec.id}/gradcheck", engine="E3", backend="native", kind="bounded", **base)
    r2.paths = n
    if gbad is not None:
        r2.verdict, r2.witness, r2.replay_confirmed = "refuted", gbad, True
        r2.detail = f"float64, frozen RNG (re-seeded inside the wrapped function): {'backward/forward raises' if 'error' in gbad else 'autograd Jacobian differs from central finite differences even at the coarse tolerance'}: {gbad}"
    else:
        r2.verdict = "discharged"
        r2.detail = f"bounded: {n} random float64 inputs (real and complex, shapes {shapes}), frozen RNG: torch.autograd.gradcheck{STRICT} passes on {n - len(coarse_only)}"
        if coarse_only:
            r2.detail += (f"; on {len(coarse_only)} inputs the strict check fails but the Jacobian matches central differences at {COARSE} (max abs err {worst:.2e}): the noise power is round-tripped through float32 "
                          "in kaira/utils/snr.py:snr_to_noise_power (`result.to(torch.float32)`), which makes y(x) a ~1e-7-relative staircase - a precision artefact, the analytic gradient is that of the smooth map")
    r1.wall_s = r2.wall_s = r3.wall_s = round(time.time() - t0, 3)
    return [r1, r2, r3]


def _register_stage(key):
    cls, fstr, variants, shapes = _CAT[key]

    @obligation(f"C19.nodetach_{key}", function=fstr, configs=lambda tier: ["source"], kind="custom", engine="E3")
    def nd(spec, cfg, tier, seed):
        return nodetach_results(spec, cfg, cls, variants, shapes)

    @obligation(f"C19.gradcheck_{key}", function=fstr, configs=lambda tier, vs=tuple(variants): [f"{v}|{tier}" for v in vs], kind="custom", engine="E3")
    def gc(spec, cfg, tier, seed):
        v, _, t = cfg.rpartition("|")
        return gradcheck_results(spec, cfg, variants[v], shapes, t)

    return nd, gc


for _key in _CAT:
    _register_stage(_key)


# ------------------------------------------------------------------------------------------------ end to end
E2E_MODELS = ["bourtsoulatze2019", "tung2022_q", "tung2022_q2", "kurka2020"]
E2E_CONSTRAINTS = ["TotalPowerConstraint", "AveragePowerConstraint", "PAPRConstraint", "PerAntennaPowerConstraint"]
E2E_CHANNELS = ["AWGN(snr_db=10)", "AWGN(avg_noise_power=0.1)", "Laplacian(snr_db=10)", "Nonlinear(tanh)+noise(snr_db=15)"]


def _e2e_parts(model, constraint, channel):
    from kaira.channels import analog as A
    from kaira.constraints import antenna as An
    from kaira.constraints import power as Pm
    from kaira.models.deepjscc import DeepJSCCModel

    kw = {}
    if model == "kurka2020":
        from kaira.models.image.kurka2020_deepjscc_feedback import DeepJSCCFeedbackDecoder, DeepJSCCFeedbackEncoder

        enc, dec = DeepJSCCFeedbackEncoder(256), DeepJSCCFeedbackDecoder(3)  # decoder input width is hard-coded to 256
    else:
        P = build_pair(model, {"c": 8, "N": 16, "M": 8})  # M=4 leaves ResidualUnits with 2 hidden channels: dead-ReLU zero gradients unrelated to constraint/channel
        enc, dec = P.enc, P.dec
        if model == "tung2022_q2":
            kw = {"csi": True}
    cons = {"TotalPowerConstraint": lambda: Pm.TotalPowerConstraint(1.0), "AveragePowerConstraint": lambda: Pm.AveragePowerConstraint(1.0), "PAPRConstraint": lambda: Pm.PAPRConstraint(3.0), "PerAntennaPowerConstraint": lambda: An.PerAntennaPowerConstraint(uniform_power=1.0)}[constraint]()
    chan = {"AWGN(snr_db=10)": lambda: A.AWGNChannel(snr_db=10.0), "AWGN(avg_noise_power=0.1)": lambda: A.AWGNChannel(avg_noise_power=0.1), "Laplacian(snr_db=10)": lambda: A.LaplacianChannel(snr_db=10.0),
            "Nonlinear(tanh)+noise(snr_db=15)": lambda: A.NonlinearChannel(torch.tanh, add_noise=True, snr_db=15.0)}[channel]()
    return DeepJSCCModel(enc, cons, chan, dec), enc, kw


def _e2e_cfgs(tier):
    sizes = "16,32" if tier == "quick" else "16,32,48,64"
    batches = "1,2" if tier == "quick" else "1,2,5"
    return [f"{m}|{c}|{ch}|sizes={sizes}|batches={batches}" for m in E2E_MODELS for c in E2E_CONSTRAINTS for ch in E2E_CHANNELS]


@obligation("C19.e2e_grad", function="kaira/models/deepjscc.py:DeepJSCCModel.__init__; kaira/models/generic/sequential.py:SequentialModel.forward", configs=_e2e_cfgs, kind="custom", engine="E3")
def e2e_grad(spec, cfg, tier, seed):
    model, constraint, channel, sz, bt = cfg.split("|")
    sizes = [int(s) for s in sz.split("=")[1].split(",")]
    batches = [int(s) for s in bt.split("=")[1].split(",")]
    t0 = time.time()
    r = ObResult(ob=f"{spec.id}/encoder_grads", engine="E3", backend="native", kind="bounded", **_base(spec, cfg))
    bad, n, nparams, excused, ever_nonzero = None, 0, 0, 0, set()
    for s in sizes:
        for b in batches:
            torch.manual_seed(1000 + n)
            try:
                net, enc, kw = _e2e_parts(model, constraint, channel)
                net.train()
                x = torch.rand(b, 3, s, s)
                kwargs = {"csi": torch.full((b, 1), 10.0)} if kw.get("csi") else {}
                # baseline: the bare autoencoder decoder(encoder(x)) with the same weights and input; parameters whose gradient is
                # identically zero there (dead ReLU units at reduced width / 1x1 latents) are not attributed to constraint+channel
                y0 = net.decoder(net.encoder(x, **kwargs), **kwargs)
                torch.nn.functional.mse_loss(y0, x).backward()
                zero0 = {nm for nm, p in enc.named_parameters() if p.grad is not None and float(p.grad.abs().max()) == 0.0}
                net.zero_grad(set_to_none=True)
                y = net(x, **kwargs)
                if tuple(y.shape) != tuple(x.shape):
                    problems = [f"output shape {tuple(y.shape)} != input shape {tuple(x.shape)}"]
                else:
                    loss = torch.nn.functional.mse_loss(y, x)
                    loss.backward()
                    rep = E3.grad_report(enc, loss)
                    problems = [q for q in rep if not (q.endswith("identically zero") and q.split(":")[0] in zero0)]
                    excused += len(rep) - len(problems)
                    ever_nonzero |= {nm for nm, p in enc.named_parameters() if p.grad is not None and float(p.grad.abs().max()) > 0.0}
                    if not bool(torch.isfinite(loss)):
                        problems.insert(0, f"loss = {float(loss)}")
                nparams = sum(1 for _ in enc.parameters())
            except Exception as e:
                problems = [f"{type(e).__name__}: {str(e)[:220]}"]
            n += 1
            if problems and bad is None:
                bad = {"image_size": s, "batch": b, "torch_seed": 1000 + n - 1, "n_problems": len(problems), "problems": problems[:5]}
    if bad is None and nparams and len(ever_nonzero) < nparams:
        bad = {"problems": [f"{nparams - len(ever_nonzero)} encoder parameter tensors never receive a non-zero gradient on the whole grid"]}
    r.paths = n
    r.verdict, r.witness, r.replay_confirmed = ("discharged" if bad is None else "refuted"), bad, (True if bad else None)
    r.detail = (f"bounded: {n} (size,batch) runs of the real DeepJSCCModel; loss=mse(decoder(channel(constraint(encoder(x)))), x); loss.backward(): every one of the {nparams} encoder parameter tensors gets a finite gradient in every run and a non-zero one on the grid; {excused} (run, parameter) zero gradients are also zero for the bare autoencoder decoder(encoder(x)) with the same weights (dead units at reduced width) and are not attributed to constraint+channel"
                if bad is None else f"encoder parameters without a usable gradient through constraint+channel+decoder: {bad}")
    r.wall_s = round(time.time() - t0, 3)
    return [r]


# ================================================================================================ NOMA wrapper: option grid (bounded)
@obligation("C19.noma_device_encoder_grads", function=IMG + "yilmaz2023_deepjscc_noma.py:Yilmaz2023DeepJSCCNOMAModel.forward; " + IMG + "yilmaz2023_deepjscc_noma.py:Yilmaz2023DeepJSCCNOMAModel._forward_perfect_sic",
            configs=lambda tier: [f"noma_grads[shared_encoder={s},use_device_embedding={e},perfect_sic={c},devices={d}]|{tier}" for s in (0, 1) for e in (1, 2) for c in (0, 1) for d in ((2,) if tier == "quick" else (2, 3))], kind="custom", engine="E3")
def noma_device_encoder_grads(spec, cfg, tier, seed):
    """bounded: for every combination of the wrapper's options the reconstruction loss back-propagates into EVERY device's encoder
    (each encoder the model owns receives a finite, somewhere non-zero gradient) and into every decoder it owns"""
    from kaira.channels import AWGNChannel
    from kaira.constraints import AveragePowerConstraint
    from kaira.models.image.yilmaz2023_deepjscc_noma import Yilmaz2023DeepJSCCNOMAModel

    t0 = time.time()
    _, p, _ = parse_cfg(cfg)
    # use_device_embedding: 1 = True given explicitly, 2 = left at its default (None: follows shared_encoder; the default device encoder
    # is built for 3 image planes + 1 embedding plane, so embedding off needs a user-supplied 3-plane encoder class and is not in this grid)
    shared, sic, nd = bool(p.get("shared_encoder", 0)), bool(p.get("perfect_sic", 0)), int(p.get("devices", 2))
    emb = True if int(p.get("use_device_embedding", 1)) == 1 else None
    if emb is None and not shared:
        emb = True  # default would switch the embedding off for separate encoders (needs the 3-plane encoder): keep it on explicitly
    r = ObResult(ob=f"{spec.id}/every_owned_encoder_and_decoder_gets_gradient", engine="E3", backend="native", kind="bounded", **_base(spec, cfg))
    bad, n = None, 0
    for (b, h) in ((2, 16), (1, 32)):
        torch.manual_seed(500 + n)
        try:
            m = Yilmaz2023DeepJSCCNOMAModel(AWGNChannel(snr_db=10.0), AveragePowerConstraint(1.0), num_devices=nd, shared_encoder=shared, use_perfect_sic=sic, use_device_embedding=emb, image_shape=(h, h))
            m.train()
            x = torch.rand(b, nd, 3, h, h)
            xin = x if sic else [x[:, i] for i in range(nd)]
            y = m(xin, csi=torch.rand(b, 1))
            loss = torch.nn.functional.mse_loss(y, x) if tuple(y.shape) == tuple(x.shape) else None
            if loss is None:
                bad = bad or {"batch": b, "size": h, "problem": f"output shape {tuple(y.shape)} != {tuple(x.shape)}"}
            else:
                loss.backward()
                used_enc = list(m.encoders)[:1] if shared else list(m.encoders)  # a shared encoder is encoders[0]; the others are never run
                used_dec = list(getattr(m, "decoders", []))[:1] if getattr(m, "shared_decoder", False) else list(getattr(m, "decoders", []))
                for kind, mods_ in (("encoder", used_enc), ("decoder", used_dec)):
                    for i, sub in enumerate(mods_):
                        ps = [q for q in sub.parameters() if q.requires_grad]
                        none = sum(1 for q in ps if q.grad is None)
                        nonfinite = sum(1 for q in ps if q.grad is not None and not bool(torch.isfinite(q.grad).all()))
                        anynz = any(q.grad is not None and float(q.grad.abs().max()) > 0 for q in ps)
                        if ps and (none or nonfinite or not anynz) and bad is None:
                            bad = {"batch": b, "size": h, "problem": f"{kind} {i} of {len(mods_)}: {none} of {len(ps)} parameter tensors without gradient, {nonfinite} non-finite, any non-zero: {anynz}"}
        except Exception as e:
            bad = bad or {"batch": b, "size": h, "problem": f"{type(e).__name__}: {str(e)[:220]}"}
        n += 1
    r.paths = n
    r.verdict, r.witness, r.replay_confirmed = ("discharged" if bad is None else "refuted"), bad, (True if bad else None)
    r.detail = f"bounded: {n} runs (batch 2 at 16x16, batch 1 at 32x32), mse reconstruction loss, backward" + ("" if bad is None else f": {bad}")
    r.wall_s = round(time.time() - t0, 3)
    return [r]
