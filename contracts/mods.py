"""Shared catalogue of modulation configurations (C05/C06/C14/C15/C09).

A configuration is a picklable `contracts.codes.Cfg` tuple whose str() is stable; `build(cfg)` calls the REAL kaira
constructors and returns a fresh (modulator, demodulator) pair; `pair(cfg)` returns a per-process cached pair (use it only for
objects that are not mutated: schemes with memory toggle state in training mode, call reset_state()/eval() or use build()).

    Cfg("bpsk")                         Cfg("qpsk", "norm"|"raw")
    Cfg("psk", order, "gray"|"bin")     Cfg("qam", order, "gray"|"bin", "norm"|"raw")
    Cfg("pam", order, "gray"|"bin", "norm"|"raw")
    Cfg("dpsk", order, "gray"|"bin")    Cfg("dbpsk")     Cfg("dqpsk")
    Cfg("oqpsk", "norm"|"raw")          Cfg("pi4qpsk", "gray"|"bin")      Cfg("identity")

Extend by APPENDING new families / helper functions; do not rewrite existing entries (two agents share this file).
"""
from __future__ import annotations

import functools

from .codes import Cfg

MEMORYLESS = ("bpsk", "qpsk", "psk", "qam", "pam")
WITH_MEMORY = ("dpsk", "dbpsk", "dqpsk", "oqpsk", "pi4qpsk")


def build(cfg):
    """fresh (modulator, demodulator) built by the real constructors"""
    import kaira.modulations as M
    from kaira.modulations import dpsk, oqpsk, pam, pi4qpsk, psk, qam

    fam = cfg[0]
    if fam == "bpsk":
        return psk.BPSKModulator(), psk.BPSKDemodulator()
    if fam == "qpsk":
        n = cfg[1] == "norm"
        return psk.QPSKModulator(normalize=n), psk.QPSKDemodulator(normalize=n)
    if fam == "psk":
        _, order, gray = cfg
        g = gray == "gray"
        return psk.PSKModulator(order, gray_coding=g), psk.PSKDemodulator(order, gray_coding=g)
    if fam == "qam":
        _, order, gray, norm = cfg
        g, n = gray == "gray", norm == "norm"
        return qam.QAMModulator(order, gray_coding=g, normalize=n), qam.QAMDemodulator(order, gray_coding=g, normalize=n)
    if fam == "pam":
        _, order, gray, norm = cfg
        g, n = gray == "gray", norm == "norm"
        return pam.PAMModulator(order, gray_coding=g, normalize=n), pam.PAMDemodulator(order, gray_coding=g, normalize=n)
    if fam == "dpsk":
        _, order, gray = cfg
        g = gray == "gray"
        return dpsk.DPSKModulator(order, gray_coding=g), dpsk.DPSKDemodulator(order, gray_coding=g)
    if fam == "dbpsk":
        return dpsk.DBPSKModulator(), dpsk.DBPSKDemodulator()
    if fam == "dqpsk":
        return dpsk.DQPSKModulator(), dpsk.DQPSKDemodulator()
    if fam == "oqpsk":
        n = cfg[1] == "norm"
        return oqpsk.OQPSKModulator(normalize=n), oqpsk.OQPSKDemodulator(normalize=n)
    if fam == "pi4qpsk":
        g = cfg[1] == "gray"
        return pi4qpsk.Pi4QPSKModulator(gray_coded=g), pi4qpsk.Pi4QPSKDemodulator(gray_coded=g)
    if fam == "bpsk_real":
        # rarely used option: real-valued BPSK symbols (not part of catalogue(); used where a contract asks for it explicitly)
        return psk.BPSKModulator(complex_output=False), psk.BPSKDemodulator()
    if fam == "identity":
        from kaira.modulations.identity import IdentityDemodulator, IdentityModulator

        return IdentityModulator(), IdentityDemodulator()
    raise ValueError(f"unknown modulation family {fam}")


@functools.lru_cache(maxsize=None)
def pair(cfg):
    """cached (modulator, demodulator); do not rely on it for schemes whose forward mutates state"""
    return build(cfg)


def bits_per_symbol(cfg):
    return pair(cfg)[0].bits_per_symbol


def points(cfg):
    """number of constellation points"""
    return 2 ** bits_per_symbol(cfg)


def catalogue(tier, families=None, max_points=None):
    """all configurations of the grid of DESIGN.md section 7 (C05/C06); quick tier: at most 16 points"""
    if max_points is None:
        max_points = 16 if tier == "quick" else 256
    out = [Cfg("bpsk"), Cfg("qpsk", "norm"), Cfg("qpsk", "raw")]
    for order in (4, 8, 16, 32, 64):
        for g in ("gray", "bin"):
            out.append(Cfg("psk", order, g))
    for order in (4, 16, 64, 256):
        for g in ("gray", "bin"):
            for n in ("norm", "raw"):
                out.append(Cfg("qam", order, g, n))
    for order in (2, 4, 8, 16, 32, 64):
        for g in ("gray", "bin"):
            for n in ("norm", "raw"):
                out.append(Cfg("pam", order, g, n))
    for order in (2, 4, 8, 16):
        for g in ("gray", "bin"):
            out.append(Cfg("dpsk", order, g))
    out += [Cfg("dbpsk"), Cfg("dqpsk"), Cfg("oqpsk", "norm"), Cfg("oqpsk", "raw"), Cfg("pi4qpsk", "gray"), Cfg("pi4qpsk", "bin")]
    res = []
    for c in out:
        if families is not None and c[0] not in families:
            continue
        order = c[1] if len(c) > 1 and isinstance(c[1], int) else {"bpsk": 2, "dbpsk": 2}.get(c[0], 4)
        if order <= max_points:
            res.append(c)
    return res
