"""C09 - a coded, modulated link over an ideal or bounded-error channel returns the data.

Direct route (DESIGN 7/C09, route 2): the whole REAL ChannelCodeModel.forward
(encoder -> modulator -> constraint -> channel -> demodulator -> decoder) is executed on a symbolic message with
  * an ideal channel (PerfectChannel),
  * a LambdaChannel that displaces every symbol by a symbolic delta with |delta|^2 < (d_min/2)^2 (d_min computed exactly from the real
    constellation), and
  * a LambdaChannel that flips at most t code bits per block (for antipodal-per-bit mappings - BPSK, QPSK - a bit flip is the sign
    flip of the corresponding component, placed by the harness; t = the code's advertised capability),
and `decoded == message` is discharged for ALL messages, ALL admissible displacements / flip patterns.
Composition route: stage order and fold are C17; the per-stage contracts are C01/C02/C05/C06.
Pairings outside E2's reach (Berlekamp-Massey decoder in the chain) are bounded stand-ins.
"""
from __future__ import annotations

import itertools
import random
from fractions import Fraction

import numpy as np
import torch

from vk import spec as SP
from vk import sym as S
from vk.harness import ObResult, obligation
from vk.tensor import P, PC, SymTensor

from . import codes, mods
from .c02 import _decoder, capability
from .codes import Cfg

FM = "kaira/models/"

# (code, decoder kind) pairings that E2 reaches; n must be a multiple of bits/symbol (or blocks are concatenated until it is)
CODES_Q = [
    (Cfg("hamming", 3, False, "left"), "syndrome"),
    (Cfg("hamming", 3, True, "left"), "syndrome"),
    (Cfg("repetition", 3), "syndrome"),
    (Cfg("repetition", 4), "brute"),
    (Cfg("spc", 3), "brute"),
    (Cfg("rm", 1, 3), "rminv"),
    (Cfg("hamming", 3, False, "right"), "haminv"),
    (Cfg("cyclic", 7, 11, "left"), "syndrome"),
    # information set 'right' / custom through the decoders that call the encoder's extract_message (appended: indices above are part of
    # the configuration names)
    (Cfg("hamming", 3, False, "right"), "syndrome"),
    (Cfg("cyclic", 7, 11, "right"), "syndrome"),
    (Cfg("hamming", 3, False, (6, 0, 3, 1)), "syndrome"),
]
MODS_Q = [Cfg("bpsk"), Cfg("qpsk", "norm"), Cfg("psk", 8, "gray"), Cfg("qam", 16, "gray", "norm"), Cfg("pam", 4, "gray", "norm"), Cfg("psk", 4, "bin"), Cfg("bpsk_real")]


class _InvDecoder(torch.nn.Module):
    """the encoder's own error-correcting inverse used as the decoder stage (Hamming single-error inverse, RM nearest codeword)"""

    def __init__(self, enc):
        super().__init__()
        self.enc = enc

    def forward(self, r, *a, **k):
        return self.enc.inverse_encode(r)[0]


def _dec(kind, code):
    enc = codes.build(code)
    if kind in ("syndrome", "brute", "bm"):
        return _decoder(kind, code)
    return _InvDecoder(enc)


def _blocks_needed(n, b):
    nb = 1
    while (nb * n) % b:
        nb += 1
    return nb


def _link_cfgs(tier):
    out = []
    for (code, kind), mod in itertools.product(CODES_Q, MODS_Q):
        enc = codes.build(code)
        k, n = enc.generator_matrix.shape
        b = mods.bits_per_symbol(mod)
        nb = _blocks_needed(n, b)
        forks = {"syndrome": 2 ** (n - k), "haminv": n + 1, "brute": 1, "rminv": 1}[kind]
        if forks**nb > (600 if tier == "quick" else 6000) or nb * n > (16 if tier == "quick" else 32):
            continue
        if tier == "quick" and CODES_Q.index((code, kind)) >= 8 and nb > 1:
            continue  # the appended 'right' / custom information-set codes: single-block pairings in the quick tier
        for chan in ("ideal", "displaced") + (("flips",) if mod[0] in ("bpsk", "bpsk_real", "qpsk") and (nb == 1 or tier == "thorough") else ()):
            out.append(Cfg(str(code), kind, str(mod), chan, CODES_Q.index((code, kind)), MODS_Q.index(mod)))
    return out


def dmin_sq(const_re, const_im):
    pts = list(zip(const_re, const_im))
    best = None
    for i in range(len(pts)):
        for j in range(i + 1, len(pts)):
            d = (pts[i][0] - pts[j][0]) ** 2 + (pts[i][1] - pts[j][1]) ** 2
            best = d if best is None or d < best else best
    return best


@obligation(
    "C09.link",
    function=FM + "channel_code.py:ChannelCodeModel.__init__; " + FM + "generic/sequential.py:SequentialModel.forward; kaira/channels/identity.py:PerfectChannel.forward; kaira/channels/lambda_channel.py:LambdaChannel.forward; kaira/constraints/identity.py:IdentityConstraint.forward",
    configs=_link_cfgs,
    max_paths=8000,
    timeout_ms=60000,
    crosscheck=1,
)
def link(ctx, cfg):
    from kaira.channels.identity import PerfectChannel
    from kaira.channels.lambda_channel import LambdaChannel
    from kaira.constraints.identity import IdentityConstraint
    from kaira.models.channel_code import ChannelCodeModel

    _, kind, _, chan, ci, mi = cfg
    code, _k = CODES_Q[ci]
    mod = MODS_Q[mi]
    enc = codes.build(code)
    dec = _dec(kind, code)
    modulator, demodulator = mods.build(mod)
    modulator.eval()
    demodulator.eval()
    k, n = enc.generator_matrix.shape
    b = modulator.bits_per_symbol
    nb = _blocks_needed(n, b)
    nsym = nb * n // b
    t, d, src = capability(enc, code)
    msg = ctx.bits("m", (1, nb * k))  # batch-of-one layout: several blocks per row are the documented multi-block layout
    if chan == "ideal":
        channel = PerfectChannel()
    elif chan == "displaced":
        const = modulator.constellation
        cre = [Fraction(float(v)) for v in (const.real if const.is_complex() else const).tolist()]
        cim = [Fraction(float(v)) for v in (const.imag.tolist() if const.is_complex() else [0.0] * len(cre))]
        lim = dmin_sq(cre, cim) / 4
        is_c = const.is_complex()
        if is_c:
            delta = ctx.complexes("delta", (1, nsym), sampler=lambda r, s=float(lim) ** 0.5: r.uniform(-0.6, 0.6) * s)
            dr, di = (a.reshape(-1) for a in PC(delta))
        else:
            delta = ctx.reals("delta", (1, nsym), sampler=lambda r, s=float(lim) ** 0.5: r.uniform(-0.9, 0.9) * s)
            dr, di = P(delta).reshape(-1), [0] * nsym
        # Precondition of the property: |delta| < d_min/2 (a ball).  The obligation is proved for the LARGER polyhedral set
        #   { delta : delta.(c_j - c_i) < |c_j - c_i|^2 / 2  for all i != j }
        # which contains that ball by the triangle lemma C09.triangle_lemma (proved per constellation), so the nonlinear ball
        # never reaches the solver: a sound strengthening of the obligation that keeps the chain in linear real arithmetic.
        M = len(cre)
        for s_ in range(nsym):
            for i in range(M):
                for j in range(M):
                    if i == j:
                        continue
                    ar, ai = cre[j] - cre[i], cim[j] - cim[i]
                    ctx.assume(S.lt(S.add(S.mul(ar, dr[s_]), S.mul(ai, di[s_])), (ar * ar + ai * ai) / 2 * Fraction(999999, 1000000)))
        channel = LambdaChannel(lambda x, *a, **kw: x + delta)
    else:
        # at most t flipped code bits per block; for BPSK/QPSK a flipped bit is the sign flip of its component
        e = ctx.bits("e", (nb, n), sampler=lambda r, p=min(0.5, (t + 0.3) / n): 1 if r.random() < p else 0)
        ep = P(e)
        for blk in range(nb):
            ctx.assume(S.le(SP.weight(ep[blk]), t))
        flat = ep.reshape(-1)
        if mod[0] in ("bpsk", "bpsk_real"):
            sign = ctx.tensor(np.array([[S.sub(1, S.mul(2, v)) for v in flat]], dtype=object))
            channel = LambdaChannel(lambda x, *a, **kw: x * sign)
        else:
            sr = ctx.tensor(np.array([[S.sub(1, S.mul(2, flat[2 * i])) for i in range(nsym)]], dtype=object))
            si = ctx.tensor(np.array([[S.sub(1, S.mul(2, flat[2 * i + 1])) for i in range(nsym)]], dtype=object))
            channel = LambdaChannel(lambda x, *a, **kw: torch.complex(x.real * sr, x.imag * si))
    model = ChannelCodeModel(encoder=enc, constraint=IdentityConstraint(), modulator=modulator, channel=channel, demodulator=demodulator, decoder=dec)
    out = ctx.call(model.forward, msg)
    ctx.ensure("returns", out.ok, note=repr(out.exc) if not out.ok else "")
    if not out.ok:
        return
    res = out.value[0] if isinstance(out.value, tuple) else out.value
    ctx.ensure("message_recovered", tuple(res.shape) == (1, nb * k) and SP.all_eq(P(res), P(msg)), note=f"{nb} block(s), {nsym} symbols, t={t} ({src})")
    ctx.ensure("message_unmodified", out.unmodified)


@obligation("C09.triangle_lemma", function="kaira/modulations/base.py:BaseModulator.constellation", configs=lambda tier: list(MODS_Q), kind="custom", engine="z3-lemma")
def triangle_lemma(spec, cfg, tier, seed):
    """forall delta in R^2 (R for real constellations): |delta|^2 < (d_min/2)^2  =>  forall i != j: delta.(c_j - c_i) < |c_j - c_i|^2 / 2
    on the exact rational values of the real constellation table (the set used as displacement precondition in C09.link contains the ball)"""
    import time

    import z3

    t0 = time.time()
    modulator, _ = mods.build(cfg)
    const = modulator.constellation
    cre = [Fraction(float(v)) for v in (const.real if const.is_complex() else const).tolist()]
    cim = [Fraction(float(v)) for v in (const.imag.tolist() if const.is_complex() else [0.0] * len(cre))]
    lim = dmin_sq(cre, cim) / 4
    x, y = z3.Real("dx"), z3.Real("dy")
    q = lambda f: z3.RealVal(f"{f.numerator}/{f.denominator}")
    sol = z3.Solver()
    sol.set("timeout", 60000)
    sol.add(x * x + y * y < q(lim))
    if not const.is_complex():
        sol.add(y == 0)
    bad = []
    for i in range(len(cre)):
        for j in range(len(cre)):
            if i != j:
                ar, ai = cre[j] - cre[i], cim[j] - cim[i]
                bad.append(q(ar) * x + q(ai) * y >= q((ar * ar + ai * ai) / 2))
    sol.add(z3.Or(bad))
    r = sol.check()
    res = ObResult(prop="C09", ob=f"{spec.id}/ball_inside_polyhedron", config=str(cfg), function=spec.function, engine="z3-lemma", backend="z3", kind="proof")
    res.verdict = "discharged" if r == z3.unsat else ("refuted" if r == z3.sat else "undecided")
    if r == z3.sat:
        m = sol.model()
        res.witness = {"delta": [str(m.eval(x, model_completion=True)), str(m.eval(y, model_completion=True))]}
        res.replay_confirmed = True
    res.detail = f"{len(cre)} points, d_min^2/4 = {float(lim):.6g}; z3 {r}"
    res.wall_s = res.solver_s = round(time.time() - t0, 3)
    return [res]


# ---------------------------------------------------------------------------------------- bounded: BM in the chain
def _bm_cfgs(tier):
    return [Cfg("bch", 3, 3, "left", "bpsk"), Cfg("bch", 4, 5, "left", "qpsk"), Cfg("bch", 4, 7, "right", "bpsk")] + ([Cfg("bch", 5, 7, "left", "bpsk")] if tier == "thorough" else [])


@obligation("C09.link_bm_bounded", function=FM + "channel_code.py:ChannelCodeModel.__init__; kaira/models/fec/decoders/berlekamp_massey.py:BerlekampMasseyDecoder.forward", configs=_bm_cfgs, kind="custom", engine="standin")
def link_bm(spec, cfg, tier, seed):
    import time

    from kaira.channels.lambda_channel import LambdaChannel
    from kaira.constraints.identity import IdentityConstraint
    from kaira.models.channel_code import ChannelCodeModel

    t0 = time.time()
    code = Cfg(*cfg[:-1])
    mod = Cfg("bpsk") if cfg[-1] == "bpsk" else Cfg("qpsk", "norm")
    enc = codes.build(code)
    dec = _decoder("bm", code)
    k, n = enc.generator_matrix.shape
    t, d, src = capability(enc, code)
    b = 1 if cfg[-1] == "bpsk" else 2
    nb = _blocks_needed(n, b)
    rng = random.Random(seed * 97 + 3)
    fail = None
    N = 60 if tier == "quick" else 600
    for trial in range(N):
        m = torch.tensor([[float(rng.randint(0, 1)) for _ in range(nb * k)]])
        e = torch.zeros(nb, n)
        for blk in range(nb):
            for j in rng.sample(range(n), rng.randint(0, t)):
                e[blk, j] = 1.0
        flat = e.reshape(-1)
        modulator, demodulator = mods.build(mod)
        if b == 1:
            ch = LambdaChannel(lambda x, *a, **kw: x * (1 - 2 * flat))
        else:
            ch = LambdaChannel(lambda x, *a, **kw: torch.complex(x.real * (1 - 2 * flat[0::2]), x.imag * (1 - 2 * flat[1::2])))
        model = ChannelCodeModel(encoder=enc, constraint=IdentityConstraint(), modulator=modulator, channel=ch, demodulator=demodulator, decoder=dec)
        out = model(m)
        if not torch.equal(out.float(), m):
            fail = {"m": m.tolist(), "flips": e.tolist(), "decoded": out.tolist()}
            break
    r = ObResult(prop="C09", ob=f"{spec.id}/message_recovered", config=str(cfg), function=spec.function, engine="standin", backend="native", kind="bounded")
    r.verdict = "discharged" if fail is None else "refuted"
    r.witness, r.replay_confirmed = fail, (None if fail is None else True)
    r.paths = N
    r.detail = f"bounded: {N} seeded random (message, <= t flips per block) cases through the real ChannelCodeModel with BerlekampMasseyDecoder, t={t}"
    r.wall_s = round(time.time() - t0, 2)
    return [r]


# ---------------------------------------------------------------------------------------- soft-decision chains
SOFT_PAIRS = [("spc", 3, "wagner"), ("spc", 2, "wagner"), ("polar", 8, 4, "sc_min_sum"), ("polar", 4, 2, "sc_min_sum"), ("rm", 1, 3, "rm_soft")]
SOFT_MODS = [Cfg("bpsk"), Cfg("qpsk", "norm")]


def _soft_pair(p):
    import contextlib
    import io

    if p[0] == "spc":
        from kaira.models.fec.decoders.wagner_soft_decision_decoder import WagnerSoftDecisionDecoder

        enc = codes.build(Cfg("spc", p[1]))
        return enc, WagnerSoftDecisionDecoder(enc), enc.code_dimension, enc.code_length
    if p[0] == "polar":
        from kaira.models.fec.decoders.successive_cancellation import SuccessiveCancellationDecoder
        from kaira.models.fec.encoders.polar_code import PolarCodeEncoder

        with contextlib.redirect_stdout(io.StringIO()):
            enc = PolarCodeEncoder(p[2], p[1])
            enc(torch.zeros(1, p[2]))  # warm the encoder's memoised masks natively
            dec = SuccessiveCancellationDecoder(enc, regime="min_sum")
        return enc, dec, p[2], p[1]
    from kaira.models.fec.decoders.reed_muller_decoder import ReedMullerDecoder

    enc = codes.build(Cfg("rm", p[1], p[2]))
    return enc, ReedMullerDecoder(enc, input_type="soft"), enc.code_dimension, enc.code_length


def _soft_cfgs(tier):
    out = []
    for pi, p in enumerate(SOFT_PAIRS):
        for mi, mod in enumerate(SOFT_MODS):
            n = p[1] if p[0] == "polar" else (p[1] + 1 if p[0] == "spc" else 2 ** p[2])
            if n % mods.bits_per_symbol(mod):
                continue
            for chan in ("ideal", "displaced"):
                if chan == "displaced" and mod[0] == "qpsk" and n > 4:
                    continue  # max-log LLRs of displaced QPSK symbols are quadratic in delta: beyond the solver budget for 8-bit codes
                for nv in (("sym",) if chan == "ideal" else ("0.1", "2.5")):
                    out.append(Cfg("soft", "_".join(str(v) for v in p), str(mod), chan, pi, mi, nv))
    return out


@obligation(
    "C09.soft_link",
    function=FM + "channel_code.py:ChannelCodeModel.__init__; " + FM + "generic/sequential.py:SequentialModel.forward; kaira/modulations/psk.py:BPSKDemodulator.forward; kaira/modulations/psk.py:QPSKDemodulator.forward; kaira/models/fec/decoders/wagner_soft_decision_decoder.py:WagnerSoftDecisionDecoder.forward; kaira/models/fec/decoders/successive_cancellation.py:SuccessiveCancellationDecoder.forward; kaira/models/fec/decoders/reed_muller_decoder.py:ReedMullerDecoder.forward",
    configs=_soft_cfgs,
    max_paths=4000,
    timeout_ms=60000,
    crosscheck=1,
)
def soft_link(ctx, cfg):
    """soft demodulation (noise_var forwarded through the pipeline) feeding a soft-input decoder: decoded == message over the ideal
    channel and for every displacement inside the polyhedral set containing the half-minimum-distance ball, for every noise variance > 0"""
    from kaira.channels.identity import PerfectChannel
    from kaira.channels.lambda_channel import LambdaChannel
    from kaira.constraints.identity import IdentityConstraint
    from kaira.models.channel_code import ChannelCodeModel

    _, _, _, chan, pi, mi, nvs = cfg
    enc, dec, k, n = _soft_pair(SOFT_PAIRS[pi])
    mod = SOFT_MODS[mi]
    modulator, demodulator = mods.build(mod)
    modulator.eval()
    demodulator.eval()
    b = modulator.bits_per_symbol
    nsym = n // b
    msg = ctx.bits("m", (1, k))
    # ideal channel: every noise variance > 0 (symbolic); displaced symbols: a concrete grid of variances keeps the LLRs linear in delta
    if nvs == "sym":
        nv = ctx.scalar("noise_var", "real", sampler=lambda r: r.choice([0.01, 0.1, 1.0, 7.5]))
        ctx.assume(S.lt(0, nv))
    else:
        nv = float(nvs)
    if chan == "ideal":
        channel = PerfectChannel()
    else:
        const = modulator.constellation
        cre = [Fraction(float(v)) for v in (const.real if const.is_complex() else const).tolist()]
        cim = [Fraction(float(v)) for v in (const.imag.tolist() if const.is_complex() else [0.0] * len(cre))]
        lim = dmin_sq(cre, cim) / 4
        delta = ctx.complexes("delta", (1, nsym), sampler=lambda r, s=float(lim) ** 0.5: r.uniform(-0.6, 0.6) * s)
        dr, di = (a.reshape(-1) for a in PC(delta))
        for s_ in range(nsym):
            for i in range(len(cre)):
                for j in range(len(cre)):
                    if i != j:
                        ar, ai = cre[j] - cre[i], cim[j] - cim[i]
                        ctx.assume(S.lt(S.add(S.mul(ar, dr[s_]), S.mul(ai, di[s_])), (ar * ar + ai * ai) / 2 * Fraction(999999, 1000000)))
        channel = LambdaChannel(lambda x, *a, **kw: x + delta)
    model = ChannelCodeModel(encoder=enc, constraint=IdentityConstraint(), modulator=modulator, channel=channel, demodulator=demodulator, decoder=dec)
    nvt = ctx.tensor(np.asarray(nv, dtype=object)) if (ctx.mode == "sym" and nvs == "sym") else torch.tensor(float(nv))
    out = ctx.call(model.forward, msg, noise_var=nvt)
    ctx.ensure("returns", out.ok, note=repr(out.exc) if not out.ok else "")
    if not out.ok:
        return
    res = out.value[0] if isinstance(out.value, tuple) else out.value
    ctx.ensure("message_recovered", tuple(res.shape) == (1, k) and SP.all_eq(P(res), P(msg)))


# ---------------------------------------------------------------------------------------- consecutive transmissions (state carried between calls)
def _consec_cfgs(tier):
    out = []
    for code, kind in ((Cfg("hamming", 3, False, "left"), "syndrome"), (Cfg("repetition", 5), "brute"), (Cfg("repetition", 3), "syndrome")):
        for g in ("gray", "bin"):
            out.append(Cfg("consecutive", str(code), kind, g, CODES_Q.index((code, kind)) if (code, kind) in CODES_Q else -1))
    return out


_CONSEC_CODES = {"hamming(3,False,left)": (Cfg("hamming", 3, False, "left"), "syndrome"), "repetition(5)": (Cfg("repetition", 5), "brute"), "repetition(3)": (Cfg("repetition", 3), "syndrome")}


@obligation(
    "C09.consecutive_transmissions",
    function=FM + "channel_code.py:ChannelCodeModel.__init__; kaira/modulations/pi4qpsk.py:Pi4QPSKModulator.forward; kaira/modulations/pi4qpsk.py:Pi4QPSKDemodulator.forward",
    configs=_consec_cfgs,
    max_paths=8000,
    timeout_ms=60000,
    crosscheck=1,
)
def consecutive_transmissions(ctx, cfg):
    """one ChannelCodeModel with the pi/4-QPSK pair (a scheme with memory) in its DEFAULT mode, reused for three consecutive batched
    transmissions with an odd number of symbols per row: every transmission returns its message (modulator and demodulator must
    advance their alternating-constellation state in step)"""
    from kaira.channels.identity import PerfectChannel
    from kaira.constraints.identity import IdentityConstraint
    from kaira.models.channel_code import ChannelCodeModel

    code, kind = _CONSEC_CODES[cfg[1]]
    enc = codes.build(code)
    dec = _dec(kind, code)
    modulator, demodulator = mods.build(Cfg("pi4qpsk", cfg[3]))
    k, n = enc.generator_matrix.shape
    nb = _blocks_needed(n, 2)
    model = ChannelCodeModel(encoder=enc, constraint=IdentityConstraint(), modulator=modulator, channel=PerfectChannel(), demodulator=demodulator, decoder=dec)
    msgs = [ctx.bits(f"m{i}", (1, nb * k)) for i in range(3)]

    def three_calls(a, b, c):
        return [model(a), model(b), model(c)]

    out = ctx.call(three_calls, *msgs)
    ctx.ensure("returns", out.ok, note=repr(out.exc) if not out.ok else f"{nb * n // 2} symbols per transmission")
    if not out.ok:
        return
    for i, res in enumerate(out.value):
        res = res[0] if isinstance(res, tuple) else res
        ctx.ensure(f"transmission_{i}_recovered", tuple(res.shape) == (1, nb * k) and SP.all_eq(P(res), P(msgs[i])))
