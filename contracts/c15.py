"""C15 - one LLR polarity everywhere: positive means bit 0, negative means bit 1.

Producers  (soft demodulators of C06): forall bits: the noise-free soft output satisfies  llr_k > 0 <=> bit_k == 0  (finite domain:
           symbolic bits through the REAL modulator, then the REAL soft demodulator).
Consumers  (LLR mode), forall llr in R \\ {0} per element:
           out == [llr < 0]   FixedThresholder(0, LLR), LLRThresholder, MinDistanceThresholder(LLR), WeightedThresholder(unit weights, 1/2),
                              SoftBitEnsembleThresholder of convention-following members (all votings), llr_to_bits, sign_to_bin o sign,
                              RepetitionSoftBitDecoder (repetitions of equal sign)
           LLRThresholder(SOFT) == sigmoid(-llr), strictly decreasing in llr (P(bit=1) = sigmoid(-LLR))
           HysteresisThresholder: out == [llr < 0] outside its dead zone (inside: previous state - interpretation note)
           DynamicThresholder (first call after reset): out == [llr < 0] whenever P1 = sigmoid(-llr) is outside [0.45, 0.55], the range of
                              its adapted threshold 0.9*0.5 + 0.1*mean(P1) (interpretation note), and polarity: ones go to the smaller LLRs
           AdaptiveThresholder (mean): polarity: out_i = 1 and out_j = 0 => llr_i < llr_j; two elements of opposite sign => out == [llr < 0]
Pairing    consumer(producer(bits)) == bits for QPSK / 16-QAM -> each thresholder (bits enumerated path-completely).
Soft-input decoders as consumers (Wagner, SC, BP, soft RM) belong to C10/C11.

sigmoid is uninterpreted with the axioms of vk.explore.note_uf (range (0,1), sign, sigmoid(0) = 1/2, strictly increasing).
The harness's differential cross-check evaluates symbolic results under a z3 model in which an uninterpreted sigmoid has arbitrary
(axiom-respecting) values, so it cannot be used where the VALUE of sigmoid reaches the output (LLRThresholder soft output, the
0.6/0.4, mean and adapted thresholds of Hysteresis / Adaptive / Dynamic): those obligations run with crosscheck=0 (reported to the
lead: the cross-check should pin every noted UF occurrence to the true function value at the sampled input).
"""
from __future__ import annotations

from fractions import Fraction

import numpy as np
import torch

from vk import spec as SP
from vk import sym as S
from vk.harness import obligation
from vk.ops_mod2 import ensure_view_getitem
from vk.tensor import P, PC

from . import mods
from .c06 import Scheme
from .codes import Cfg, split_variant, with_variants

ensure_view_getitem()

FM = "kaira/modulations/"
FT = "kaira/models/binary/soft_bit_thresholding.py"
FU = "kaira/models/fec/utils.py"


# ================================================================================================ producers
PRODUCER_FAMILIES = ("bpsk", "qpsk", "psk", "qam", "pam", "oqpsk", "pi4qpsk", "dpsk", "dbpsk", "dqpsk")


def _producer_cfgs(tier):
    # thorough: up to 64 points (256-QAM: one path per symbol value and a 256-way max-log per bit; did not finish inside its solver
    # budget and is covered by C06.soft_sign_agrees_with_hard plus C06.hard_nearest_point, which the polarity clause follows from)
    base = mods.catalogue(tier, families=PRODUCER_FAMILIES, max_points=None if tier == "quick" else 64)
    # pi/4-QPSK has a separate code path for un-batched (1-D) input: 3 symbols = 6 bits (> 4 elements, so read as bits)
    return base + [Cfg(*c, "1d") for c in base if c[0] == "pi4qpsk"]


def _concrete_bits(ctx, name, n):
    """n bits enumerated path-completely (every bool() forks): downstream computations are concrete and run on the real kernels"""
    b = ctx.bits(name, (n,))
    if ctx.mode != "sym":
        return b, [int(v) for v in P(b)]
    vals = [int(v) for v in P(b)]
    return ctx.tensor(np.asarray(vals, dtype=object)), vals


def _transmit(ctx, cfg, sc, nsym, concretise=False, unbatched=False):
    """returns (bits tensor, bit payload list, llr payload, map from llr position -> bit position or None)"""
    b = sc.b
    nbits = nsym * b
    if concretise:
        bits, vals = _concrete_bits(ctx, "bits", nbits)
    else:
        # 1-D inputs of <= 4 values are read as symbol indices by Pi4QPSKModulator: pi/4-QPSK gets a (1, nbits) batch
        bits = ctx.bits("bits", (1, nbits) if (cfg[0] == "pi4qpsk" and not unbatched) else (nbits,))
        vals = list(P(bits).reshape(-1))
    return bits, vals, bits


def _bit_map(cfg, b, nsym):
    """llr position -> transmitted bit position"""
    fam = cfg[0]
    m = {}
    if fam in ("dpsk", "dbpsk", "dqpsk"):
        for t in range(1, nsym):
            for k in range(b):
                m[(t - 1) * b + k] = t * b + k  # the first symbol is the phase reference of the second
    elif fam == "oqpsk":
        for t in range(nsym):
            m[2 * t] = 2 * t  # in-phase stream
            if t >= 1:
                m[2 * t + 1] = 2 * (t - 1) + 1  # quadrature stream is delayed by one symbol
    else:
        for i in range(nsym * b):
            m[i] = i
    return m


@obligation(
    "C15.producer_noise_free_polarity",
    function=FM + "psk.py:BPSKDemodulator.forward; " + FM + "psk.py:QPSKDemodulator.forward; " + FM + "psk.py:PSKDemodulator.forward; " + FM + "qam.py:QAMDemodulator.forward; " + FM + "pam.py:PAMDemodulator.forward; " + FM + "oqpsk.py:OQPSKDemodulator.forward; " + FM + "pi4qpsk.py:Pi4QPSKDemodulator.forward; " + FM + "dpsk.py:DPSKDemodulator.forward",
    configs=_producer_cfgs,
    max_paths=5000,
    timeout_ms=60000,
)
def producer_polarity(ctx, cfg):
    unbatched = cfg[-1] == "1d"
    if unbatched:
        cfg = Cfg(*cfg[:-1])
    sc = Scheme(cfg)
    fam = cfg[0]
    memory = fam in ("dpsk", "dbpsk", "dqpsk", "oqpsk", "pi4qpsk")
    nsym = (3 if sc.n <= 4 else 2) if memory else (2 if sc.n <= 16 else 1)
    concretise = fam in ("dpsk", "dbpsk", "dqpsk")  # z/(|z|+1e-9) and the modulator's cumulative product are run on concrete symbols
    bits, vals, x = _transmit(ctx, cfg, sc, nsym, concretise, unbatched)
    sc.mod.eval()
    sc.dem.eval()
    tx = ctx.call(sc.mod.forward, x)
    ctx.ensure("modulator_returns", tx.ok, note=repr(tx.exc) if not tx.ok else "")
    if not tx.ok:
        return
    out = ctx.call(sc.dem.forward, tx.value, torch.tensor(1.0))
    ctx.ensure("soft_demodulator_returns", out.ok, note=repr(out.exc) if not out.ok else "")
    if not out.ok:
        return
    llr = P(out.value).reshape(-1)
    bm = _bit_map(cfg, sc.b, nsym)
    ctx.ensure("one_llr_per_bit", len(llr) == (nsym - 1 if fam in ("dpsk", "dbpsk", "dqpsk") else nsym) * sc.b)
    pos, neg = [], []
    for i, j in bm.items():
        if i >= len(llr):
            pos.append(False)
            continue
        pos.append(S.eq(S.lt(0, llr[i]), S.eq(vals[j], 0)))
        neg.append(S.eq(S.lt(llr[i], 0), S.eq(vals[j], 1)))
    ctx.ensure("llr_positive_iff_bit_0", SP.conj(pos))
    ctx.ensure("llr_negative_iff_bit_1", SP.conj(neg))


# ================================================================================================ consumers
def _thr():
    from kaira.models.binary import soft_bit_thresholding as T

    return T


def build_consumer(name):
    T = _thr()
    LLR = T.InputType.LLR
    if name == "fixed":
        return T.FixedThresholder(threshold=0.0, input_type=LLR)
    if name == "llr":
        return T.LLRThresholder()
    if name == "llr_scaled":
        return T.LLRThresholder(confidence_scaling=2.5)
    if name == "llr_soft":
        return T.LLRThresholder(output_type=T.OutputType.SOFT)
    if name == "mindist":
        return T.MinDistanceThresholder(input_type=LLR)
    if name.startswith("mindist_"):
        # custom reference LLRs (any order, two or four points, symmetric about 0): the decided bit is still [llr < 0]
        pts = {"desc": [2.0, -2.0], "wide": [-6.0, 6.0], "four": [-4.0, -1.0, 1.0, 4.0], "fourdesc": [4.0, 1.0, -1.0, -4.0]}[name.split("_", 1)[1]]
        return T.MinDistanceThresholder(reference_points=torch.tensor(pts), input_type=LLR)
    if name == "weighted":
        return T.WeightedThresholder(weights=1.0, threshold=0.5, input_type=LLR)
    if name == "weighted_vec":
        return T.WeightedThresholder(weights=[1.0, 1.0, 1.0], threshold=0.5, input_type=LLR)
    if name.startswith("ensemble_"):
        members = [T.LLRThresholder(), T.WeightedThresholder(weights=1.0, threshold=0.5, input_type=LLR), T.LLRThresholder(confidence_scaling=2.0)]
        voting = name.split("_", 1)[1]
        return T.SoftBitEnsembleThresholder(members, voting=voting, weights=[1.0, 2.0, 1.0] if voting == "weighted" else None)
    if name == "hysteresis":
        return T.HysteresisThresholder(input_type=LLR)
    if name == "hysteresis_nodz":
        return T.HysteresisThresholder(high_threshold=0.5, low_threshold=0.5, input_type=LLR)
    if name == "dynamic":
        return T.DynamicThresholder(input_type=LLR)
    if name == "adaptive":
        return T.AdaptiveThresholder(input_type=LLR)
    if name.startswith("repetition_"):
        return T.RepetitionSoftBitDecoder(repetition_factor=2, soft_combine_method=name.split("_", 1)[1], input_type=LLR)
    raise ValueError(name)


SIGN_CONSUMERS = ["fixed", "llr", "llr_scaled", "mindist", "mindist_desc", "mindist_wide", "mindist_four", "mindist_fourdesc", "weighted", "weighted_vec", "ensemble_majority", "ensemble_weighted", "ensemble_any", "ensemble_all", "hysteresis_nodz", "llr_to_bits", "sign_to_bin"]


def _llr_input(ctx, shape):
    x = ctx.reals("llr", shape, sampler=lambda r: r.choice([-1, 1]) * 10 ** r.uniform(-3, 3))
    v = P(x)
    for e in v.reshape(-1):
        ctx.assume(S.ne(e, 0))
    return x, v


def _is_one_iff_negative(out, v):
    return SP.conj(S.land(S.lor(S.le(0, a), S.eq(o, 1)), S.lor(S.le(a, 0), S.eq(o, 0))) for o, a in zip(out.reshape(-1), v.reshape(-1)))


def _sign_cfgs(tier):
    out = []
    for n in SIGN_CONSUMERS:
        out.append(Cfg(n, "n3"))
        if n not in ("weighted_vec", "mindist_four", "mindist_fourdesc"):  # four reference points x four elements exceeds the solver budget
            out.append(Cfg(n, "2x2"))
    return out


@obligation(
    "C15.consumer_bit_is_llr_negative",
    function=FT + ":FixedThresholder.forward; " + FT + ":LLRThresholder.forward; " + FT + ":MinDistanceThresholder.forward; " + FT + ":WeightedThresholder.forward; " + FT + ":SoftBitEnsembleThresholder.forward; " + FT + ":HysteresisThresholder.forward; " + FU + ":llr_to_bits; " + FU + ":sign_to_bin",
    configs=_sign_cfgs,
    max_paths=512,
    timeout_ms=30000,
)
def consumer_sign(ctx, cfg):
    name, shp = cfg
    shape = (3,) if shp == "n3" else (2, 2)
    x, v = _llr_input(ctx, shape)
    if name == "llr_to_bits":
        from kaira.models.fec.utils import llr_to_bits

        out = ctx.call(llr_to_bits, x)
    elif name == "sign_to_bin":
        from kaira.models.fec.utils import sign_to_bin

        out = ctx.call(lambda t: sign_to_bin(torch.sign(t)), x)
    else:
        th = build_consumer(name)
        out = ctx.call(th.forward, x)
    ctx.ensure("returns", out.ok, note=repr(out.exc) if not out.ok else "")
    if not out.ok:
        return
    ctx.ensure("shape_preserved", SP.shape_is(out.value, shape))
    if not SP.shape_is(out.value, shape):
        return
    ctx.ensure("bit_is_1_iff_llr_negative", _is_one_iff_negative(P(out.value), v))
    ctx.ensure("input_unmodified", out.unmodified)


def _sigm_neg(a):
    return S.uf_apply("sigmoid", S.mul(-1, a))


@obligation("C15.llr_to_probability", function=FT + ":LLRThresholder.forward", configs=lambda tier: [Cfg("llr_soft", "n3"), Cfg("llr_soft", "2x2")], max_paths=64, timeout_ms=30000, crosscheck=2)
def llr_to_probability(ctx, cfg):
    name, shp = cfg
    shape = (3,) if shp == "n3" else (2, 2)
    x = ctx.reals("llr", shape, sampler=lambda r: r.choice([-1, 1]) * 10 ** r.uniform(-3, 1.5))
    v = P(x)
    th = build_consumer(name)
    out = ctx.call(th.forward, x)
    ctx.ensure("returns", out.ok, note=repr(out.exc) if not out.ok else "")
    if not out.ok:
        return
    o = P(out.value)
    tol = 0 if ctx.mode == "sym" else Fraction(1, 10**6)
    ctx.ensure("p1_is_sigmoid_of_minus_llr", SP.conj(S.le(S.sabs(S.sub(a, _sigm_neg(b))), tol) for a, b in zip(o.reshape(-1), v.reshape(-1))))
    of, vf = list(o.reshape(-1)), list(v.reshape(-1))
    eps = 0 if ctx.mode == "sym" else Fraction(1, 10**3)
    mono = [S.lor(S.le(S.sub(vf[j], vf[i]), eps), S.lt(of[j], of[i])) for i in range(len(vf)) for j in range(len(vf)) if i != j]
    ctx.ensure("p1_strictly_decreasing_in_llr", SP.conj(mono), note="native replays require a gap of 1e-3 between the LLRs (float32 sigmoid)")
    ctx.ensure("p1_above_half_iff_llr_negative", SP.conj(S.land(S.lor(S.le(0, b), S.lt(Fraction(1, 2), a)), S.lor(S.le(b, 0), S.lt(a, Fraction(1, 2)))) for a, b in zip(of, vf) if True) if ctx.mode == "sym" else True)


@obligation("C15.consumer_hysteresis", function=FT + ":HysteresisThresholder.forward", configs=lambda tier: [Cfg("hysteresis", "n3"), Cfg("hysteresis", "2x2")], max_paths=512, timeout_ms=30000, crosscheck=2)
def consumer_hysteresis(ctx, cfg):
    """default thresholds 0.6 / 0.4 on P1 = sigmoid(-llr), fresh object (state None -> zeros)"""
    name, shp = cfg
    shape = (3,) if shp == "n3" else (2, 2)
    x, v = _llr_input(ctx, shape)
    th = build_consumer(name)
    hi, lo = Fraction(float(th.high_threshold)), Fraction(float(th.low_threshold))
    out = ctx.call(th.forward, x)
    ctx.ensure("returns", out.ok, note=repr(out.exc) if not out.ok else "")
    if not out.ok:
        return
    o = P(out.value).reshape(-1)
    vf = v.reshape(-1)
    outside, inside = [], []
    for a, b in zip(o, vf):
        p1 = _sigm_neg(b)
        dz = S.land(S.le(lo, p1), S.le(p1, hi))
        want = S.ite(S.lt(b, 0), 1, 0)
        outside.append(S.lor(dz, S.eq(a, want)))
        inside.append(S.lor(S.lnot(dz), S.eq(a, 0)))
    ctx.ensure("outside_dead_zone_bit_is_1_iff_llr_negative", SP.conj(outside))
    ctx.ensure("inside_dead_zone_previous_state", SP.conj(inside), note="interpretation note: inside the dead zone lo <= sigmoid(-llr) <= hi the output is the previous state (zeros for a fresh object), whatever the sign of the LLR")


@obligation("C15.consumer_dynamic", function=FT + ":DynamicThresholder.forward", configs=lambda tier: [Cfg("dynamic", "n3"), Cfg("dynamic", "2x2")], max_paths=512, timeout_ms=30000, crosscheck=2)
def consumer_dynamic(ctx, cfg):
    """first call after reset: threshold = clamp(0.9*0.5 + 0.1*mean(P1)) lies in [0.45, 0.55]"""
    name, shp = cfg
    shape = (3,) if shp == "n3" else (2, 2)
    x, v = _llr_input(ctx, shape)
    th = build_consumer(name)
    out = ctx.call(th.forward, x, reset=True)
    ctx.ensure("returns", out.ok, note=repr(out.exc) if not out.ok else "")
    if not out.ok:
        return
    o = list(P(out.value).reshape(-1))
    vf = list(v.reshape(-1))
    lo, hi = Fraction(45, 100), Fraction(55, 100)
    margin = 0 if ctx.mode == "sym" else Fraction(1, 10**4)
    cl = []
    for a, b in zip(o, vf):
        p1 = _sigm_neg(b)
        near = S.land(S.le(S.sub(lo, margin), p1), S.le(p1, S.add(hi, margin)))
        cl.append(S.lor(near, S.eq(a, S.ite(S.lt(b, 0), 1, 0))))
    ctx.ensure("bit_is_1_iff_llr_negative_outside_threshold_range", SP.conj(cl), note="interpretation note: for sigmoid(-llr) within [0.45, 0.55] the adapted threshold decides, not the sign of the LLR")
    pol = [S.lor(S.lnot(S.land(S.eq(o[i], 1), S.eq(o[j], 0))), S.lt(vf[i], vf[j])) for i in range(len(o)) for j in range(len(o)) if i != j]
    ctx.ensure("ones_go_to_the_smaller_llrs", SP.conj(pol))


@obligation("C15.consumer_adaptive", function=FT + ":AdaptiveThresholder.forward", configs=lambda tier: [Cfg("adaptive", "n2"), Cfg("adaptive", "n3"), Cfg("adaptive", "2x2")], max_paths=512, timeout_ms=30000, crosscheck=2)
def consumer_adaptive(ctx, cfg):
    """method='mean' (default); 'median' (torch.median) and 'otsu' (torch.histc) are outside the symbolic op table"""
    name, shp = cfg
    shape = {"n2": (2,), "n3": (3,), "2x2": (2, 2)}[shp]
    x, v = _llr_input(ctx, shape)
    th = build_consumer(name)
    out = ctx.call(th.forward, x)
    ctx.ensure("returns", out.ok, note=repr(out.exc) if not out.ok else "")
    if not out.ok:
        return
    o = list(P(out.value).reshape(-1))
    vf = list(v.reshape(-1))
    gap = 0 if ctx.mode == "sym" else Fraction(1, 10**3)
    pol = [S.lor(S.lnot(S.land(S.eq(o[i], 1), S.eq(o[j], 0))), S.lt(vf[i], S.add(vf[j], gap))) for i in range(len(o)) for j in range(len(o)) if i != j]
    ctx.ensure("ones_go_to_the_smaller_llrs", SP.conj(pol))
    if shp == "n2":
        both = S.lt(S.mul(vf[0], vf[1]), 0)
        ctx.ensure("two_elements_of_opposite_sign_bit_is_1_iff_llr_negative", S.lor(S.lnot(both), _is_one_iff_negative(np.asarray(o, dtype=object), np.asarray(vf, dtype=object))))


@obligation("C15.consumer_repetition", function=FT + ":RepetitionSoftBitDecoder.forward; " + FT + ":LLRThresholder.forward", configs=lambda tier: [Cfg("repetition_" + m) for m in ("mean", "sum", "max", "min")], max_paths=512, timeout_ms=30000)
def consumer_repetition(ctx, cfg):
    """(1, 2*2) LLRs, repetition factor 2: when both repetitions of a bit have the same sign the decoded bit is [llr < 0]"""
    name = cfg[0]
    x, v = _llr_input(ctx, (1, 4))
    dec = build_consumer(name)
    out = ctx.call(dec.forward, x)
    ctx.ensure("returns", out.ok, note=repr(out.exc) if not out.ok else "")
    if not out.ok:
        return
    ctx.ensure("one_bit_per_group", SP.shape_is(out.value, (1, 2)))
    if not SP.shape_is(out.value, (1, 2)):
        return
    o = P(out.value).reshape(-1)
    vf = v.reshape(-1)
    cl = []
    for g in range(2):
        a, b = vf[2 * g], vf[2 * g + 1]
        cl.append(S.lor(S.lnot(S.land(S.lt(a, 0), S.lt(b, 0))), S.eq(o[g], 1)))
        cl.append(S.lor(S.lnot(S.land(S.lt(0, a), S.lt(0, b))), S.eq(o[g], 0)))
    ctx.ensure("agreeing_repetitions_decode_to_their_sign", SP.conj(cl))


# ================================================================================================ pairing
PAIR_CONSUMERS = ["fixed", "llr", "mindist", "weighted", "ensemble_majority", "hysteresis", "dynamic", "adaptive", "llr_to_bits"]


def _pair_cfgs(tier):
    out = []
    for p in (Cfg("qpsk", "norm"), Cfg("qam", 16, "gray", "norm")):
        for c in PAIR_CONSUMERS:
            out.append(Cfg(*p, c))
    return out


@obligation(
    "C15.pairing_consumer_of_producer",
    function=FM + "psk.py:QPSKDemodulator.forward; " + FM + "qam.py:QAMDemodulator.forward; " + FT + ":FixedThresholder.forward; " + FT + ":LLRThresholder.forward; " + FT + ":MinDistanceThresholder.forward; " + FT + ":WeightedThresholder.forward; " + FT + ":SoftBitEnsembleThresholder.forward; " + FT + ":HysteresisThresholder.forward; " + FT + ":DynamicThresholder.forward; " + FT + ":AdaptiveThresholder.forward; " + FU + ":llr_to_bits",
    configs=_pair_cfgs,
    max_paths=5000,
    timeout_ms=30000,
    crosscheck=2,
)
def pairing(ctx, vcfg):
    """bits (2 symbols, enumerated path-completely) -> real modulator -> real soft demodulator (sigma^2 = 0.1) -> consumer == bits.
    AdaptiveThresholder: for bit vectors containing both values (its threshold is the mean of the batch)."""
    cfg, cname = split_variant(vcfg)
    sc = Scheme(cfg)
    nsym = 2
    bits, vals = _concrete_bits(ctx, "bits", nsym * sc.b)
    if cname == "adaptive":
        ctx.assume(0 < sum(vals) < len(vals))
    tx = ctx.call(sc.mod.forward, bits)
    if not tx.ok:
        ctx.ensure("modulator_returns", False, note=repr(tx.exc))
        return
    soft = ctx.call(sc.dem.forward, tx.value, torch.tensor(0.1))
    if not soft.ok:
        ctx.ensure("soft_demodulator_returns", False, note=repr(soft.exc))
        return
    if cname == "llr_to_bits":
        from kaira.models.fec.utils import llr_to_bits

        out = ctx.call(llr_to_bits, soft.value)
    else:
        th = build_consumer(cname)
        out = ctx.call(th.forward, soft.value) if cname != "dynamic" else ctx.call(th.forward, soft.value, reset=True)
    ctx.ensure("consumer_returns", out.ok, note=repr(out.exc) if not out.ok else "")
    if not out.ok:
        return
    ctx.ensure("recovers_the_transmitted_bits", SP.shape_is(out.value, (nsym * sc.b,)) and SP.all_eq(P(out.value), np.asarray(vals, dtype=object)))


# ================================================================================================ option spellings (closed)
@obligation("C15.input_type_spellings", function="; ".join(FT + ":" + c + ".forward" for c in ("FixedThresholder", "AdaptiveThresholder", "HysteresisThresholder", "WeightedThresholder", "DynamicThresholder", "MinDistanceThresholder", "RepetitionSoftBitDecoder")),
            configs=lambda tier: [Cfg("spelling", n) for n in ("fixed", "mindist", "weighted", "hysteresis", "dynamic", "adaptive", "repetition_mean")], kind="ground", engine="ground")
def input_type_spellings(cfg):
    """InputType is a str-valued enum: `input_type="llr"` (what a configuration file or the registry hands over) must select the same
    LLR-mode consumer as `input_type=InputType.LLR`.  Closed: every LLR word over {-20, -3, -0.4, 0.4, 3, 20} of length 4 (1296 words),
    fresh object per word; the two constructions must return identical bits"""
    import itertools

    T = _thr()
    name = cfg[1]

    def mk(it):
        if name == "fixed":
            return T.FixedThresholder(threshold=0.0, input_type=it)
        if name == "mindist":
            return T.MinDistanceThresholder(input_type=it)
        if name == "weighted":
            return T.WeightedThresholder(weights=1.0, threshold=0.5, input_type=it)
        if name == "hysteresis":
            return T.HysteresisThresholder(input_type=it)
        if name == "dynamic":
            return T.DynamicThresholder(input_type=it)
        if name == "adaptive":
            return T.AdaptiveThresholder(input_type=it)
        return T.RepetitionSoftBitDecoder(repetition_factor=2, soft_combine_method="mean", input_type=it)

    bad = []
    n = 0
    for w in itertools.product((-20.0, -3.0, -0.4, 0.4, 3.0, 20.0), repeat=4):
        x = torch.tensor([w])
        n += 1
        try:
            with torch.no_grad():
                a, b = mk(T.InputType.LLR)(x), mk("llr")(x)
        except Exception as e:
            bad.append(f"{w}: raised {e!r}")
            break
        if tuple(a.shape) != tuple(b.shape) or not torch.equal(a, b):
            bad.append(f"llr {list(w)}: enum construction -> {a.tolist()}, string construction -> {b.tolist()}")
            if len(bad) > 2:
                break
    yield "string_and_enum_select_the_same_consumer", not bad, "; ".join(bad[:2]) or f"{n} LLR words"
