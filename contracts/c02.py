"""C02 - hard-decision decoders correct every error pattern within the advertised capability; complete decoders are
minimum-distance decoders.

Contract on decoder.forward(r) / encoder.inverse_encode(r):
   requires r = forward(m) xor e,  wt(e) <= t = floor((d_advertised-1)/2)      ensures result == m  (and errors == e)
   complete decoders, for EVERY r:  forall codewords c': d(forward(result), r) <= d(c', r)
Symbolic message AND symbolic error pattern (cardinality constraint); the decoders' per-row loops (.item(), dict lookup,
torch.equal) are explored path-completely.  Berlekamp-Massey and the Reed-Muller majority decoder convert every received bit
to a Python int, i.e. they concretise the whole word: they get the bounded stand-in (exhaustive where the product is small).
"""
from __future__ import annotations

import itertools
import random

import numpy as np
import torch

from vk import ground as Gd
from vk import spec as SP
from vk import sym as S
from vk.harness import ObResult, obligation
from vk.tensor import P

from . import codes
from .c03 import advertised_distance

FE = "kaira/models/fec/encoders/"
FD = "kaira/models/fec/decoders/"


def capability(enc, cfg):
    d, src = advertised_distance(enc, cfg)
    if d is None:
        G = Gd.rows_to_masks(SP.int_matrix(enc.generator_matrix))
        d, src = Gd.min_distance(G, enc.generator_matrix.shape[1]), "true distance (nothing advertised)"
    return (d - 1) // 2, d, src


def received_word(ctx, enc, shape_lead, tag, t, blocks=1, dtype=torch.float32):
    """symbolic m, e with wt(e) <= t per block; r = forward(m) xor e.  Returns (m, e, r) tensors"""
    k, n = enc.generator_matrix.shape
    G = SP.int_matrix(enc.generator_matrix)
    m = ctx.bits(f"m{tag}", shape_lead + (blocks * k,))
    e = ctx.bits(f"e{tag}", shape_lead + (blocks * n,), sampler=_sparse_sampler(n, t))
    ep = P(e)
    for pos in np.ndindex(*shape_lead):
        for blk in range(blocks):
            ctx.assume(S.le(SP.weight(ep[pos][blk * n : (blk + 1) * n]), t))
    cw = SP.blockwise(P(m), k, lambda v: SP.gf2_vecmat(v, G))  # forward(m) by C01's contract
    r = np.empty(cw.shape, dtype=object)
    for idx in np.ndindex(*cw.shape):
        r[idx] = S.mod(S.add(cw[idx], ep[idx]), 2)
    return m, e, ctx.tensor(r, dtype), cw


def _sparse_sampler(n, t):
    p = min(0.5, (t + 0.5) / max(n, 1))
    return lambda rng: 1 if rng.random() < p else 0


def ml_claim(decoded_payload, r_payload, G):
    """forall codewords c': d(encode(decoded), r) <= d(c', r)   (codebook enumerated concretely from the published G)"""
    k, n = len(G), len(G[0])
    dec_cw = SP.gf2_vecmat(list(decoded_payload), G)
    d_dec = 0
    for a, b in zip(dec_cw, r_payload):
        d_dec = S.add(d_dec, S.mod(S.add(a, b), 2))
    claims = []
    Gm = Gd.rows_to_masks(G)
    c = 0
    words = [0]
    for i in range(1, 1 << k):
        c ^= Gm[((i & -i).bit_length() - 1)]
        words.append(c)
    for w in words:
        d = 0
        for j in range(n):
            d = S.add(d, (S.sub(1, r_payload[j]) if (w >> j) & 1 else r_payload[j]))
        claims.append(S.le(d_dec, d))
    return SP.conj(claims)


# ---------------------------------------------------------------------------------------- syndrome lookup
def _syn_cfgs(tier):
    rmax, nmax = (4, 16) if tier == "quick" else (6, 24)
    out = []
    for c in codes.catalogue(tier):
        enc, _ = codes.try_build(c)
        if enc is None:
            continue
        k, n = enc.generator_matrix.shape
        if n - k <= rmax and n <= nmax and not (c.family == "rm"):
            out.append(c)
    return out


_DEC = {}


def _decoder(kind, cfg):
    key = (kind, cfg)
    if key not in _DEC:
        enc = codes.build(cfg)
        if kind == "syndrome":
            from kaira.models.fec.decoders.syndrome_lookup import SyndromeLookupDecoder

            _DEC[key] = SyndromeLookupDecoder(enc)
        elif kind == "brute":
            from kaira.models.fec.decoders.brute_force_ml import BruteForceMLDecoder

            _DEC[key] = BruteForceMLDecoder(enc)
        elif kind == "bm":
            from kaira.models.fec.decoders.berlekamp_massey import BerlekampMasseyDecoder

            _DEC[key] = BerlekampMasseyDecoder(enc)
        elif kind == "rm":
            from kaira.models.fec.decoders.reed_muller_decoder import ReedMullerDecoder

            _DEC[key] = ReedMullerDecoder(enc, input_type="hard")
        codes.warm(_DEC[key], enc.code_length)
    return _DEC[key]


def _syn_var_cfgs(tier):
    out = []
    for c in _syn_cfgs(tier):
        k, n = codes.build(c).generator_matrix.shape
        # two blocks per row square the number of paths (2^(n-k) syndromes per block): multi-block layouts for n <= 8 (thorough: n <= 10
        # and redundancy <= 4; 80 s per configuration at n = 15, minutes at redundancy 6)
        multi = n <= 8 if tier == "quick" else (n <= 10 and n - k <= 4)
        out += codes.with_variants([c], ["1d", "B1", "1d:int64", "plain"] + (["Bb", "1db"] if multi else []) + (["ml"] if n <= 12 else []))
    return out


@obligation(
    "C02.syndrome_lookup",
    function=FD + "syndrome_lookup.py:SyndromeLookupDecoder.forward; " + FD + "syndrome_lookup.py:SyndromeLookupDecoder._syndrome_to_int; " + FD + "syndrome_lookup.py:SyndromeLookupDecoder._build_syndrome_table; " + FE + "base.py:BaseBlockCodeEncoder.extract_message",
    configs=_syn_var_cfgs,
    max_paths=6000,
    timeout_ms=30000,
)
def syndrome_lookup(ctx, vcfg):
    cfg, name = codes.split_variant(vcfg)
    enc = codes.build(cfg)
    dec = _decoder("syndrome", cfg)
    k, n = enc.generator_matrix.shape
    t, d, src = capability(enc, cfg)
    G = SP.int_matrix(enc.generator_matrix)
    # CyclicCodeEncoder.minimum_distance() returns the weight of g on its k > 12 branch (known finding of C03): t derived from it is not
    # a capability of the code; the clauses are named after that branch so that the finding is tied to it and to nothing else
    sfx = ".cyclic_k_gt_12_advertises_weight_of_g" if cfg.family in ("cyclic", "cyclic_h") and k > 12 else ""
    if name == "ml":
        y = ctx.bits("y", (n,))
        out = ctx.call(dec.forward, y)
        ctx.ensure("returns", out.ok)
        if out.ok:
            ctx.ensure("minimum_distance_decoding", ml_claim(P(out.value).reshape(-1), list(P(y)), G))
        return
    lay, _, dtn = name.partition(":")
    lead = () if lay in ("1d", "1db") else (1,)
    nb = 2 if lay in ("Bb", "1db") else 1  # documented multi-block layout (..., b*n)
    dtype = getattr(torch, dtn) if dtn else torch.float32
    m, e, r, _ = received_word(ctx, enc, lead, "", t, blocks=nb, dtype=dtype)
    if lay == "plain":
        out = ctx.call(dec.forward, r)  # the default call (no error patterns requested) takes its own return path
        ctx.ensure("returns", out.ok and isinstance(out.value, torch.Tensor), note=repr(out.exc) if not out.ok else f"t={t} from {src}")
        if out.ok and isinstance(out.value, torch.Tensor):
            ctx.ensure("corrects_up_to_t" + sfx, SP.shape_is(out.value, lead + (k,)) and SP.all_eq(P(out.value), P(m)), note=f"t={t} from {src}")
            ctx.ensure("input_unmodified", out.unmodified)
        return
    out = ctx.call(dec.forward, r, return_errors=True)
    ctx.ensure("returns", out.ok, note=repr(out.exc) if not out.ok else f"t={t} from {src}")
    if not out.ok:
        return
    decoded, errors = out.value
    ctx.ensure("corrects_up_to_t" + sfx, SP.shape_is(decoded, lead + (nb * k,)) and SP.all_eq(P(decoded), P(m)), note=f"t={t} from {src}")
    ctx.ensure("reports_error_pattern" + sfx, SP.shape_is(errors, lead + (nb * n,)) and SP.all_eq(P(errors), P(e)))
    ctx.ensure("input_unmodified", out.unmodified)


@obligation("C02.syndrome_table", function=FD + "syndrome_lookup.py:SyndromeLookupDecoder._build_syndrome_table; " + FD + "syndrome_lookup.py:SyndromeLookupDecoder._generate_error_patterns", configs=_syn_cfgs, kind="ground", engine="ground")
def syndrome_table(cfg):
    """every table entry is a minimum-weight member of its coset, and every coset has an entry"""
    enc = codes.build(cfg)
    dec = _decoder("syndrome", cfg)
    k, n = enc.generator_matrix.shape
    H = Gd.rows_to_masks(SP.int_matrix(enc.check_matrix))
    rk = Gd.rank(H)
    table = dec._syndrome_table
    yield "complete", len(table) == 2**rk, f"{len(table)} entries, 2^rank(H) = {2 ** rk}"
    # minimum weight per coset by exhaustive enumeration of words in order of weight
    best = {}
    for w in range(n + 1):
        if len(best) == 2**rk:
            break
        for pos in itertools.combinations(range(n), w):
            v = sum(1 << p for p in pos)
            s = tuple(Gd.syndrome(H, v))
            best.setdefault(s, w)
    bad = []
    for key, pat in table.items():
        v = sum(1 << j for j, b in enumerate(pat.tolist()) if int(b))
        s = tuple(Gd.syndrome(H, v))
        key_bits = tuple((key >> i) & 1 for i in range(len(H)))
        if s != key_bits or bin(v).count("1") != best[s]:
            bad.append((key, bin(v).count("1"), best.get(s)))
    yield "entries_are_coset_leaders", not bad, f"entries whose pattern is not a minimum-weight member of the coset it is filed under: {bad[:5]}"


# ---------------------------------------------------------------------------------------- brute force ML
def _bf_cfgs(tier):
    # thorough: n <= 12 (the 2^n-word minimum-distance clause and the two-row / two-block layouts took 17-20 minutes per configuration
    # at n = 15 and one generic 13-column code stayed undecided inside its budget)
    kmax, nmax = (4, 9) if tier == "quick" else (6, 12)
    out = []
    for c in codes.catalogue(tier):
        enc, _ = codes.try_build(c)
        if enc is None:
            continue
        k, n = enc.generator_matrix.shape
        if k <= kmax and n <= nmax:
            out.append(c)
    return out


@obligation(
    "C02.brute_force_ml",
    function=FD + "brute_force_ml.py:BruteForceMLDecoder.forward; " + FD + "brute_force_ml.py:BruteForceMLDecoder._decode_batch; " + FD + "brute_force_ml.py:BruteForceMLDecoder._hamming_distance; " + FD + "brute_force_ml.py:BruteForceMLDecoder._generate_codebook",
    configs=lambda tier: codes.with_variants(_bf_cfgs(tier), ["1d", "B2", "Bb", "ml", "lazy", "plain"]),
    timeout_ms=60000,
)
def brute_force(ctx, vcfg):
    cfg, name = codes.split_variant(vcfg)
    enc = codes.build(cfg)
    dec = _decoder("brute", cfg)
    k, n = enc.generator_matrix.shape
    t, d, src = capability(enc, cfg)
    G = SP.int_matrix(enc.generator_matrix)
    if name == "ml":
        y = ctx.bits("y", (n,))
        out = ctx.call(dec.forward, y)
        ctx.ensure("returns", out.ok)
        if out.ok:
            ctx.ensure("minimum_distance_decoding", ml_claim(P(out.value).reshape(-1), list(P(y)), G))
        return
    lead = () if name == "1d" else ((2,) if name == "B2" else (1,))
    nb = 2 if name == "Bb" else 1
    if name == "lazy":
        # the non-default constructor option: codebook generated on demand inside the call
        from kaira.models.fec.decoders.brute_force_ml import BruteForceMLDecoder

        if ("lazy", cfg) not in _DEC:
            _DEC[("lazy", cfg)] = codes.warm(BruteForceMLDecoder(enc, precompute_codebook=False), n)
        dec = _DEC[("lazy", cfg)]
    m, e, r, _ = received_word(ctx, enc, lead, "", t, blocks=nb)
    if name == "plain":
        out = ctx.call(dec.forward, r)
        ctx.ensure("returns", out.ok and isinstance(out.value, torch.Tensor), note=repr(out.exc) if not out.ok else "")
        if out.ok and isinstance(out.value, torch.Tensor):
            ctx.ensure("corrects_up_to_t", SP.shape_is(out.value, lead + (nb * k,)) and SP.all_eq(P(out.value), P(m)), note=f"t={t} from {src}")
            ctx.ensure("input_unmodified", out.unmodified)
        return
    out = ctx.call(dec.forward, r, return_errors=True)
    ctx.ensure("returns", out.ok, note=repr(out.exc) if not out.ok else "")
    if not out.ok:
        return
    decoded, errors = out.value
    ctx.ensure("corrects_up_to_t", SP.shape_is(decoded, lead + (nb * k,)) and SP.all_eq(P(decoded), P(m)), note=f"t={t} from {src}")
    ctx.ensure("reports_error_pattern", SP.shape_is(errors, lead + (nb * n,)) and SP.all_eq(P(errors), P(e)))
    ctx.ensure("input_unmodified", out.unmodified)


# ---------------------------------------------------------------------------------------- Hamming inverse
def _ham_cfgs(tier):
    return [c for c in codes.catalogue(tier) if c.family == "hamming" and c[1] <= (4 if tier == "quick" else 5)]


def _ham_var_cfgs(tier):
    out = []
    for c in _ham_cfgs(tier):
        n = codes.build(c).generator_matrix.shape[1]
        out += codes.with_variants([c], ["1d"] + (["B2"] if n <= 8 else []))
    return out


@obligation("C02.hamming_inverse", function=FE + "hamming_code.py:HammingCodeEncoder.inverse_encode; " + FE + "hamming_code.py:HammingCodeEncoder._syndrome_to_error_position", configs=_ham_var_cfgs, max_paths=6000, timeout_ms=30000)
def hamming_inverse(ctx, vcfg):
    cfg, name = codes.split_variant(vcfg)
    enc = codes.build(cfg)
    k, n = enc.generator_matrix.shape
    t, d, src = capability(enc, cfg)
    lead = () if name == "1d" else (2,)
    m, e, r, _ = received_word(ctx, enc, lead, "", t)
    out = ctx.call(enc.inverse_encode, r)
    ctx.ensure("returns", out.ok, note=repr(out.exc) if not out.ok else "")
    if out.ok:
        ctx.ensure("corrects_up_to_t", SP.shape_is(out.value[0], lead + (k,)) and SP.all_eq(P(out.value[0]), P(m)), note=f"t={t} from {src}")
        ctx.ensure("input_unmodified", out.unmodified)


# ---------------------------------------------------------------------------------------- Reed-Muller nearest codeword
def _rm_cfgs(tier):
    kmax = 4 if tier == "quick" else 7
    out = []
    for c in codes.catalogue(tier):
        if c.family != "rm":
            continue
        enc = codes.build(c)
        if enc.generator_matrix.shape[0] <= kmax and enc.generator_matrix.shape[1] <= 16:
            out.append(c)
    return out


def _rm_var_cfgs(tier):
    out = []
    for c in _rm_cfgs(tier):
        n = codes.build(c).generator_matrix.shape[1]
        # the minimum-distance clause for every received word is a cardinality problem over n bits: n <= 8 (the 16-bit instances
        # do not finish within the solver budget; they are covered by the t-error clause and the bounded C02.rm_majority)
        out += codes.with_variants([c], ["t", "t:uint8", "t:int64"] + (["ml", "ml:uint8"] if n <= 8 else []))
    return out


@obligation("C02.rm_nearest_codeword", function=FE + "reed_muller_code.py:ReedMullerCodeEncoder.inverse_encode", configs=_rm_var_cfgs, timeout_ms=60000)
def rm_nearest(ctx, vcfg):
    cfg, var = codes.split_variant(vcfg)
    name, _, dtn = var.partition(":")
    dtype = getattr(torch, dtn) if dtn else torch.float32  # hard bits also arrive as integer tensors (uint8 wraps on subtraction)
    enc = codes.build(cfg)
    k, n = enc.generator_matrix.shape
    t, d, src = capability(enc, cfg)
    G = SP.int_matrix(enc.generator_matrix)
    if name == "t":
        m, e, r, _ = received_word(ctx, enc, (), "", t, dtype=dtype)
        out = ctx.call(enc.inverse_encode, r)
        ctx.ensure("returns", out.ok, note=repr(out.exc) if not out.ok else "")
        if out.ok:
            ctx.ensure("corrects_up_to_t", SP.all_eq(P(out.value[0]), P(m)), note=f"t={t} from {src}")
        return
    y = ctx.bits("y", (n,), dtype=dtype)
    out = ctx.call(enc.inverse_encode, y)
    ctx.ensure("returns", out.ok)
    if out.ok:
        ctx.ensure("minimum_distance_decoding", ml_claim(P(out.value[0]).reshape(-1), list(P(y)), G))


# ---------------------------------------------------------------------------------------- bounded stand-ins
def _bm_cfgs(tier):
    mus = (3, 4) if tier == "quick" else (3, 4, 5, 6)
    return [c for c in codes.catalogue(tier) if c.family == "bch" and c[1] in mus] + ([codes.Cfg("bch", 5, 7, "left")] if tier == "quick" else [])


def _enumerate_or_sample(k, n, t, budget, rng):
    """all (message, error pattern of weight <= t) pairs if their number is <= budget, else a seeded sample with every weight"""
    import math

    npats = sum(math.comb(n, w) for w in range(t + 1))  # counted, never materialised (RM(0,5): 1.5e9 patterns)
    total = (1 << k) * npats
    if total <= budget:
        pats = [p for w in range(t + 1) for p in itertools.combinations(range(n), w)]
        for mi in range(1 << k):
            for p in pats:
                yield mi, p
        return
    for _ in range(budget):
        w = rng.randint(0, t)
        yield rng.getrandbits(k), tuple(sorted(rng.sample(range(n), w)))


def _bounded_decoder(spec, cfg, tier, seed, kind, function):
    import time

    t0 = time.time()
    enc = codes.build(cfg)
    dec = _decoder(kind, cfg)
    k, n = enc.generator_matrix.shape
    t, d, src = capability(enc, cfg)
    Gm = Gd.rows_to_masks(SP.int_matrix(enc.generator_matrix))
    rng = random.Random(seed * 7 + 5)
    import math

    # evaluations per configuration; the Berlekamp-Massey decoder costs ~20 ms per word at length 31/63 (Python finite-field arithmetic)
    budget = 2500 if tier == "quick" else ((6000 if n <= 31 else 1500) if kind == "bm" else 40000)
    pats = sum(math.comb(n, w) for w in range(t + 1))
    exhaustive = (1 << k) * pats <= budget
    evals, fail_single, fail_batch = 0, None, None
    cases = list(_enumerate_or_sample(k, n, t, budget, rng))
    # single rows
    for mi, p in cases:
        cw = Gd.encode(Gm, [(mi >> i) & 1 for i in range(k)])
        rv = cw
        for j in p:
            rv ^= 1 << j
        r = torch.tensor([float((rv >> j) & 1) for j in range(n)])
        out = dec(r.unsqueeze(0))[0]
        evals += 1
        got = [int(round(float(v))) for v in out.tolist()]
        if got != [(mi >> i) & 1 for i in range(k)]:
            fail_single = {"m": [(mi >> i) & 1 for i in range(k)], "error_positions": list(p), "decoded": got}
            break
    # batches (the decoder loops over rows; a row's result must not depend on its position)
    for b in range(0, min(len(cases), 400), 4):
        chunk = cases[b : b + 4]
        rows, want = [], []
        for mi, p in chunk:
            cw = Gd.encode(Gm, [(mi >> i) & 1 for i in range(k)])
            for j in p:
                cw ^= 1 << j
            rows.append([float((cw >> j) & 1) for j in range(n)])
            want.append([(mi >> i) & 1 for i in range(k)])
        out = dec(torch.tensor(rows))
        got = [[int(round(float(v))) for v in row] for row in out.tolist()]
        evals += 1
        if got != want:
            bad = next(i for i in range(len(want)) if got[i] != want[i])
            fail_batch = {"batch_messages": want, "error_positions": [list(p) for _, p in chunk], "row": bad, "decoded_row": got[bad]}
            break
    # two codewords per row: the documented (..., m*n) layout must decode per block
    fail_multi = None
    for b in range(0, min(len(cases), 200), 4):
        chunk = cases[b : b + 4]
        if len(chunk) < 4:
            break
        rows, want = [], []
        for mi, p in chunk:
            cw = Gd.encode(Gm, [(mi >> i) & 1 for i in range(k)])
            for j in p:
                cw ^= 1 << j
            rows.append([float((cw >> j) & 1) for j in range(n)])
            want.append([(mi >> i) & 1 for i in range(k)])
        x = torch.tensor(rows).reshape(2, 2 * n)
        evals += 1
        try:
            out = dec(x)
            got = [[int(round(float(v))) for v in row] for row in out.reshape(4, -1).tolist()] if out.numel() == 4 * k else None
        except Exception as ex:
            got = repr(ex)[:120]
        if got != want:
            fail_multi = {"layout": "(2, 2n)", "messages": want, "error_positions": [list(p) for _, p in chunk], "observed": got}
            break
    res = []
    for name, fail in (("corrects_up_to_t.single_rows", fail_single), ("corrects_up_to_t.batches", fail_batch), ("corrects_up_to_t.two_blocks_per_row", fail_multi)):
        r = ObResult(prop="C02", ob=f"{spec.id}/{name}", config=str(cfg), function=function, engine="standin", backend="native", kind="bounded")
        r.verdict = "discharged" if fail is None else "refuted"
        r.paths = evals
        r.queries = len(cases)
        r.witness = fail
        r.replay_confirmed = None if fail is None else True
        r.detail = f"bounded: {'EXHAUSTIVE over all 2^k messages x all error patterns of weight <= t' if exhaustive else 'seeded sample'}: {len(cases)} (message, pattern) cases, t={t} from {src}"
        r.wall_s = round(time.time() - t0, 2)
        res.append(r)
    return res


@obligation("C02.berlekamp_massey", function=FD + "berlekamp_massey.py:BerlekampMasseyDecoder.forward; " + FD + "berlekamp_massey.py:BerlekampMasseyDecoder.berlekamp_massey_algorithm; " + FD + "berlekamp_massey.py:BerlekampMasseyDecoder._find_error_locations; " + FE + "bch_code.py:BCHCodeEncoder.calculate_syndrome_polynomial", configs=_bm_cfgs, kind="custom", engine="standin")
def berlekamp_massey(spec, cfg, tier, seed):
    return _bounded_decoder(spec, cfg, tier, seed, "bm", spec.function)


def _rmdec_cfgs(tier):
    mmax = 3 if tier == "quick" else 5
    return [c for c in codes.catalogue(tier) if c.family == "rm" and c[2] <= mmax]


@obligation("C02.rm_majority", function=FD + "reed_muller_decoder.py:ReedMullerDecoder.forward; " + FD + "reed_muller_decoder.py:ReedMullerDecoder._generate_reed_partitions", configs=_rmdec_cfgs, kind="custom", engine="standin")
def rm_majority(spec, cfg, tier, seed):
    return _bounded_decoder(spec, cfg, tier, seed, "rm", spec.function)


# ---------------------------------------------------------------------------------------- Berlekamp-Massey, path-complete for n = 7
def _bm_sym_cfgs(tier):
    mus = (3,) if tier == "quick" else (3, 4)
    out = []
    for c in codes.catalogue(tier):
        if c.family == "bch" and c[1] in mus:
            enc = codes.build(c)
            k, n = enc.generator_matrix.shape
            t = capability(enc, c)[0]
            npat = sum(1 for w in range(t + 1) for _ in itertools.combinations(range(n), w))
            if (1 << k) * npat <= (600 if tier == "quick" else 4000):  # every path runs the real Berlekamp-Massey + Chien search (~0.1 s): 4000 paths ~ 7 min per configuration
                out.append(c)
    return out


@obligation(
    "C02.berlekamp_massey_paths",
    function=FD + "berlekamp_massey.py:BerlekampMasseyDecoder.forward; " + FD + "berlekamp_massey.py:BerlekampMasseyDecoder.berlekamp_massey_algorithm; " + FD + "berlekamp_massey.py:BerlekampMasseyDecoder._find_error_locations; " + FE + "bch_code.py:BCHCodeEncoder.calculate_syndrome_polynomial",
    configs=_bm_sym_cfgs,
    max_paths=30000,
    timeout_ms=30000,
    crosscheck=2,
)
def berlekamp_massey_paths(ctx, cfg):
    """symbolic message and error pattern (wt <= t); the decoder converts every received bit with int(round(.item())), so the explorer
    forks on every bit: all 2^k x #patterns feasible paths are executed on the real code (path-complete = complete for this code)"""
    enc = codes.build(cfg)
    dec = _decoder("bm", cfg)
    k, n = enc.generator_matrix.shape
    t, d, src = capability(enc, cfg)
    m, e, r, _ = received_word(ctx, enc, (1,), "", t)
    out = ctx.call(dec.forward, r, return_errors=True)
    ctx.ensure("returns", out.ok, note=repr(out.exc) if not out.ok else f"t={t} from {src}")
    if not out.ok:
        return
    decoded, errors = out.value
    ctx.ensure("corrects_up_to_t", SP.shape_is(decoded, (1, k)) and SP.all_eq(P(decoded), P(m)), note=f"t={t} from {src}")
    ctx.ensure("reports_error_pattern", SP.shape_is(errors, (1, n)) and SP.all_eq(P(errors), P(e)))
    ctx.ensure("input_unmodified", out.unmodified)
