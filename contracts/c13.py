"""C13 - flat fading: y = h.x + n with block-constant, independently drawn, correctly normalised gains.

RNG contract as in C07 (torch.randn: fresh independent symbols, mean 0, variance 1).  Obligations
  supplied_csi_noise   forward(x, csi=h, noise=n) == h.x + n (complex arithmetic), shape preserved for 1-D, (B,L), (B,C,H,W); no draw
  expand               _expand_coefficients(h, L)[b, i] == h[b, i // T]  for all L in 1..7, T in 1..L+1 (non-divisors included)
  generate             _generate_fading_coefficients(B, L): shape (B, ceil(L/T)); affine in the draws: h = LOS + sum_j C_j g_j with
                       coefficients obtained by evaluating the real code at the unit vectors of the draw space; every block / batch
                       item uses its own symbols; second moments by the moment lemma:
                       Rayleigh LOS = 0, sum|C|^2 = 1; Rician |LOS|^2 = K/(K+1), sum|C|^2 = 1/(K+1), ratio K, total 1;
                       log-normal: structure only (own symbols; h = (g1 + i g2) * shadow(g3)/sqrt2 with shadow > 0 real)
  forward              forward(x) with generated gains: y == h_exp(g_fading).x + noise, where h_exp is rebuilt by the SPEC from the blocks the
                       real generator returns for the same draws (index i // T), and the noise stage satisfies the C07 noise algebra
                       relative to the FADED signal mean|h.x|^2 (fading draws held fixed, symbolic)
  noise_given_csi      forward(x, csi=h): the C07 noise algebra relative to h.x for arbitrary symbolic h
  constructors         Rayleigh/Rician/LogNormalFadingChannel forward their arguments (ground)
"""
from __future__ import annotations

from fractions import Fraction

import numpy as np
import torch

from vk import spec as SP
from vk import sym as S
from vk.harness import obligation
from vk.tensor import PC, oarr

from . import c07 as N
from .codes import Cfg

FA = "kaira/channels/analog.py"
FF = FA + ":FlatFadingChannel."

XSHAPES = {"L3": (3,), "L4": (4,), "2x3": (2, 3), "2x2": (2, 2), "1x4": (1, 4), "2x1x2x1": (2, 1, 2, 1), "1x2x1x2": (1, 2, 1, 2), "2x2x1x1": (2, 2, 1, 1)}


def flat_shape(shape):
    if len(shape) == 1:
        return (1, shape[0])
    return (shape[0], int(np.prod(shape[1:])))


def cmul(a, b):
    (ar, ai), (br, bi) = a, b
    re = np.empty(ar.shape, dtype=object)
    im = np.empty(ar.shape, dtype=object)
    for i in np.ndindex(*ar.shape):
        re[i] = S.sub(S.mul(ar[i], br[i]), S.mul(ai[i], bi[i]))
        im[i] = S.add(S.mul(ar[i], bi[i]), S.mul(ai[i], br[i]))
    return re, im


def mk_channel(ctx, ftype, T, how, val, K=None, sigma=None, stray_sigma=None):
    from kaira.channels.analog import FlatFadingChannel

    kw, target, snr_lin = N._configure(ctx, how, val)
    if ftype == "rician":
        kw["k_factor"] = K
    if ftype == "lognormal":
        kw["shadow_sigma_db"] = sigma
    elif stray_sigma is not None:
        kw["shadow_sigma_db"] = stray_sigma  # documented as "used only when fading_type='lognormal'": must have no effect here
    return FlatFadingChannel(ftype, T, **kw), target, snr_lin


# ================================================================================================ supplied csi and noise
def _sup_cfgs(tier):
    out = []
    shapes = ("L3", "2x3", "2x1x2x1") if tier == "quick" else tuple(XSHAPES)
    for xk in ("real", "complex"):
        for shp in shapes:
            out.append(Cfg("fading_supplied", xk, shp, "flat"))
        out.append(Cfg("fading_supplied", xk, "L3", "1d"))
    return out


@obligation("C13.supplied_csi_noise", function=FF + "forward", configs=_sup_cfgs, max_paths=16, timeout_ms=30000)
def supplied(ctx, cfg):
    _, xk, shp, layout = cfg
    shape = XSHAPES[shp]
    fs = flat_shape(shape) if layout == "flat" else shape
    x = N.make_input(ctx, xk, shape)
    h = ctx.complexes("h", fs)
    n = ctx.complexes("n", fs)
    chan, _, _ = mk_channel(ctx, "rayleigh", 2, "P", 0.5)
    out = ctx.call(chan.forward, x, csi=h, noise=n)
    ctx.ensure("returns", out.ok, note=repr(out.exc) if not out.ok else "")
    if not out.ok:
        return
    y = out.value
    ctx.ensure("shape_preserved", SP.shape_is(y, shape))
    ctx.ensure("complex_output", y.dtype.is_complex)
    ctx.ensure("no_rng_draw", len(ctx.rng_draws) == 0)
    ctx.ensure("input_unmodified", out.unmodified)
    xr, xi = PC(x)
    hr, hi = PC(h)
    nr, ni = PC(n)
    yr, yi = PC(y)
    fl = lambda a: a.reshape(-1)
    pr, pi = cmul((fl(hr), fl(hi)), (fl(xr), fl(xi)))
    sr = np.array([S.add(a, b) for a, b in zip(pr, fl(nr))], dtype=object)
    si = np.array([S.add(a, b) for a, b in zip(pi, fl(ni))], dtype=object)
    sc = np.array([S.add(S.mul(S.add(S.sabs(a), S.sabs(b)), S.add(S.sabs(c), S.sabs(d))), S.add(S.sabs(e), S.sabs(f))) for a, b, c, d, e, f in zip(fl(hr), fl(hi), fl(xr), fl(xi), fl(nr), fl(ni))], dtype=object)
    ctx.ensure("y_is_hx_plus_n", S.land(N.all_near(fl(yr), sr, sc), N.all_near(fl(yi), si, sc)))


# ================================================================================================ block expansion
def _exp_cfgs(tier):
    out = []
    for L in range(1, 8):
        for T in range(1, L + 2):
            if tier == "quick" and not (L in (1, 5, 7) or (L, T) in ((4, 3), (6, 4), (3, 2))):
                continue
            out.append(Cfg("expand", L, T))
    return out


@obligation("C13.expand", function=FF + "_expand_coefficients", configs=_exp_cfgs, max_paths=16, timeout_ms=20000)
def expand(ctx, cfg):
    _, L, T = cfg
    B = 2
    nb = -(-L // T)
    h = ctx.complexes("h", (B, nb))
    chan, _, _ = mk_channel(ctx, "rayleigh", T, "P", 0.5)
    out = ctx.call(chan._expand_coefficients, h, L)
    ctx.ensure("returns", out.ok, note=repr(out.exc) if not out.ok else "")
    if not out.ok:
        return
    e = out.value
    ctx.ensure("shape", SP.shape_is(e, (B, L)) and e.dtype == h.dtype)
    ctx.ensure("input_unmodified", out.unmodified)
    er, ei = PC(e)
    hr, hi = PC(h)
    claims = []
    for b in range(B):
        for i in range(L):
            claims.append(S.land(S.eq(er[b, i], hr[b, i // T]), S.eq(ei[b, i], hi[b, i // T])))
    ctx.ensure("block_constant_gain_of_block_i_div_T", SP.conj(claims))


# ================================================================================================ coefficient generation
K_GRID_Q = (0.0, 1.0, 10.0, 100.0)
K_GRID_T = (0.0, 0.1, 0.5, 1.0, 2.0, 3.0, 5.0, 10.0, 30.0, 100.0)


def _gen_cfgs(tier):
    out = [Cfg("generate", "rayleigh", 2, 3, 2, 0), Cfg("generate", "rayleigh", 1, 4, 1, 0), Cfg("generate", "rician", 2, 3, 2, "sym")]
    for K in K_GRID_Q if tier == "quick" else K_GRID_T:
        out.append(Cfg("generate", "rician", 2, 3, 2, K))
    if tier == "thorough":
        out += [Cfg("generate", "rayleigh", 3, 7, 3, 0), Cfg("generate", "rician", 3, 5, 4, "sym")]
    # option interaction: a shadowing sigma handed to a Rayleigh / Rician channel (one shared configuration dict) is documented as
    # unused; the gains must keep the Rayleigh / Rician law
    out += [Cfg("generate", "rayleigh", 2, 3, 2, 0, "stray_shadow_sigma_6dB"), Cfg("generate", "rician", 2, 3, 2, 2.0, "stray_shadow_sigma_6dB")]
    return out


def _gen_ln_cfgs(tier):
    out = [Cfg("generate", "lognormal", 2, 3, 2, 4.0)]
    if tier == "thorough":
        out += [Cfg("generate", "lognormal", 1, 4, 1, 8.0), Cfg("generate", "lognormal", 2, 5, 5, 0.0)]
    return out


def decompose(ctx, fn, args, draws, y):
    """(y0, syms, C) : value at the zero draw and coefficient of every real RNG symbol by evaluation of the real code at unit vectors"""
    syms = N.draw_symbols(draws)
    y0 = N.eval_at(ctx, fn, args, {}, N.zero_values(draws))
    y0r, y0i = PC(y0)
    C = []
    for s in syms:
        yj = N.eval_at(ctx, fn, args, {}, N.unit_values(draws, s))
        yjr, yji = PC(yj)
        C.append((np.array([S.sub(a, b) for a, b in zip(yjr.reshape(-1), y0r.reshape(-1))], dtype=object), np.array([S.sub(a, b) for a, b in zip(yji.reshape(-1), y0i.reshape(-1))], dtype=object)))
    return (y0r.reshape(-1), y0i.reshape(-1)), syms, C


def _generate_ln(ctx, cfg):
    return generate(ctx, cfg)


@obligation("C13.generate", function=FF + "_generate_fading_coefficients", configs=_gen_cfgs, max_paths=64, timeout_ms=60000)
def generate(ctx, cfg):
    _, ftype, B, L, T, par = cfg[:6]
    stray = 6.0 if len(cfg) > 6 else None
    nb = -(-L // T)
    K = None
    with ctx.sym():
        if ftype == "rician":
            if par == "sym":
                K = ctx.scalar("K", "real", sampler=lambda r: r.choice([0.0, r.uniform(0, 3), r.uniform(0, 100)]))
                ctx.assume(S.le(0, K))
            else:
                K = float(par)
        chan, _, _ = mk_channel(ctx, ftype, T, "P", 0.5, K=K, sigma=float(par) if ftype == "lognormal" else None, stray_sigma=stray)
    dev = torch.device("cpu")
    fn = chan._generate_fading_coefficients
    out = ctx.call(fn, B, L, dev)
    ctx.ensure("returns", out.ok, note=repr(out.exc) if not out.ok else "")
    if not out.ok:
        return
    h = out.value
    ctx.ensure("shape_one_gain_per_block_and_batch_item", SP.shape_is(h, (B, nb)) and h.dtype.is_complex)
    draws = list(ctx.rng_draws)
    n = B * nb
    ok = all(int(np.prod(tuple(t.shape))) == n and law.startswith("normal") for _, law, t in draws) and len(draws) >= 1
    ctx.ensure("one_draw_per_block", ok)
    if not ok:
        return
    hr, hi = PC(h)
    hr, hi = hr.reshape(-1), hi.reshape(-1)
    if ftype == "lognormal":
        # structure only: element p depends on the symbols at position p only
        own = []
        for p in range(n):
            vals = N.recorded_values(draws)
            masked = []
            for re, im in vals:
                m = oarr(re.shape, 0)
                m.reshape(-1)[p] = re.reshape(-1)[p]
                masked.append((m, None))
            hp = N.eval_at(ctx, fn, (B, L, dev), {}, masked)
            pr, pi = PC(hp)
            own.append(S.land(N.near(pr.reshape(-1)[p], hr[p], 1), N.near(pi.reshape(-1)[p], hi[p], 1)))
        ctx.ensure("own_symbols", SP.conj(own))
        return
    (y0r, y0i), syms, C = decompose(ctx, fn, (B, L, dev), draws, h)
    aff, own, ray, los, sca, rat, tot = [], [], [], [], [], [], []
    one = 1
    for p in range(n):
        accr, acci, pw, mag = y0r[p], y0i[p], 0, S.add(S.sabs(y0r[p]), S.sabs(y0i[p]))
        for s, (cr, ci) in zip(syms, C):
            if s["pos"] != p:
                own.append(S.land(N.near(cr[p], 0, 1), N.near(ci[p], 0, 1)))
                continue
            accr = S.add(accr, S.mul(cr[p], s["sym"]))
            acci = S.add(acci, S.mul(ci[p], s["sym"]))
            pw = S.add(pw, S.mul(S.add(N.unsqrt(N.sq(cr[p])), N.unsqrt(N.sq(ci[p]))), s["var"]))
            mag = S.add(mag, S.mul(S.add(S.sabs(cr[p]), S.sabs(ci[p])), S.sabs(s["sym"])))
        aff.append(S.land(N.near(hr[p], accr, mag), N.near(hi[p], acci, mag)))
        l2 = S.add(N.unsqrt(N.sq(y0r[p])), N.unsqrt(N.sq(y0i[p])))
        if ftype == "rayleigh":
            los.append(N.near(l2, 0, 1))
            sca.append(N.near(pw, 1, 1))
        else:
            # |LOS|^2 (K+1) == K ; scattered (K+1) == 1 ; |LOS|^2 == K * scattered ; total 1
            kp1 = S.add(K, 1)
            los.append(N.near(S.mul(l2, kp1), K, kp1))
            sca.append(N.near(S.mul(pw, kp1), 1, kp1))
            rat.append(N.near(l2, S.mul(K, pw), kp1))
            tot.append(N.near(S.add(l2, pw), 1, 1))
    ctx.ensure("affine_in_draws", SP.conj(aff))
    ctx.ensure("own_symbols_per_block_and_batch_item", SP.conj(own))
    if ftype == "rayleigh":
        ctx.ensure("zero_mean", SP.conj(los))
        ctx.ensure("unit_mean_square_gain", SP.conj(sca))
    else:
        ctx.ensure("los_power_K_over_K_plus_1", SP.conj(los))
        ctx.ensure("scattered_power_1_over_K_plus_1", SP.conj(sca))
        ctx.ensure("los_to_scattered_ratio_is_K", SP.conj(rat))
        ctx.ensure("unit_mean_square_gain", SP.conj(tot))


# the shadowing factor is exp(.) - an uninterpreted function in the solver; the harness' differential cross-check evaluates symbolic results
# under a solver model and cannot interpret it, so the log-normal configurations are registered without that cross-check
obligation("C13.generate_lognormal", function=FF + "_generate_fading_coefficients", configs=_gen_ln_cfgs, max_paths=64, timeout_ms=60000, crosscheck=2)(_generate_ln)


# ================================================================================================ forward with generated gains
def _fwd_cfgs(tier, which=("rayleigh", "rician")):
    out = []
    base = [("rayleigh", None), ("rician", 2.0), ("lognormal", 4.0)]
    for ftype, par in base:
        if ftype not in which:
            continue
        for xk, shp, T in (("real", "2x3", 2), ("complex", "L3", 2), ("real", "2x1x2x1", 1)):
            for how, val in (("P", "sym"), ("snr", 10.0)):
                if tier == "quick" and ftype == "lognormal" and shp != "L3":
                    continue
                out.append(Cfg("fading", ftype, par, xk, shp, T, how, val))
    if tier == "thorough" and "rayleigh" in which:
        for s in (-20.0, 0.0, 40.0):
            out.append(Cfg("fading", "rayleigh", None, "complex", "2x2", 2, "snr", s))
            out.append(Cfg("fading", "rician", 10.0, "real", "L4", 3, "snr", s))
        for p in (1e-3, 1e3):
            out.append(Cfg("fading", "rayleigh", None, "real", "2x3", 4, "P", p))
    return out


@obligation("C13.forward", function=FF + "forward; " + FF + "_generate_fading_coefficients; " + FF + "_expand_coefficients; " + N.FU + ":snr_to_noise_power", configs=_fwd_cfgs, max_paths=64, timeout_ms=120000)
def forward(ctx, cfg):
    _, ftype, par, xk, shp, T, how, val = cfg
    shape = XSHAPES[shp]
    B, L = flat_shape(shape)
    nb = -(-L // T)
    x = N.make_input(ctx, xk, shape)
    with ctx.sym():
        chan, target, snr_lin = mk_channel(ctx, ftype, T, how, val, K=par if ftype == "rician" else None, sigma=par if ftype == "lognormal" else None)
    out = ctx.call(chan.forward, x)
    ctx.ensure("returns", out.ok, note=repr(out.exc) if not out.ok else "")
    if not out.ok:
        return
    y = out.value
    ctx.ensure("shape_preserved", SP.shape_is(y, shape) and y.dtype.is_complex)
    ctx.ensure("input_unmodified", out.unmodified)
    draws = list(ctx.rng_draws)
    # gains the real generator returns for the same draws (its law is the subject of C13.generate); the number of draws it consumes
    # separates the fading draws from the noise draws of the recorded run
    try:
        hb, nf = N.eval_at(ctx, chan._generate_fading_coefficients, (B, L, torch.device("cpu")), {}, N.recorded_values(draws), partial=True)
    except S.EngineFault as e:
        # forward drew its random numbers in other shapes than the generator does for (batch B, length L): the fading of the recorded
        # run is not "one coefficient per item and coherence block"
        ctx.ensure("fading_draws_per_block_then_noise_draws", False, note=f"{e}; shapes drawn by forward: {[tuple(t.shape) for _, _, t in draws]}, expected fading draws of shape {(B, nb)}")
        return
    fading, noise = draws[:nf], draws[nf:]
    ok = nf >= 1 and len(noise) >= 1 and all(tuple(t.shape) == (B, nb) for _, _, t in fading)
    ctx.ensure("fading_draws_per_block_then_noise_draws", ok)
    if not ok:
        return
    hbr, hbi = PC(hb)
    xr, xi = PC(x)
    xr, xi = xr.reshape(B, L), xi.reshape(B, L)
    her = np.empty((B, L), dtype=object)
    hei = np.empty((B, L), dtype=object)
    for b in range(B):
        for i in range(L):
            her[b, i], hei[b, i] = hbr[b, i // T], hbi[b, i // T]
    fr, fi = cmul((her, hei), (xr, xi))
    fr, fi = fr.reshape(shape), fi.reshape(shape)
    sc = np.array([S.add(S.mul(S.add(S.sabs(a), S.sabs(b)), S.add(S.sabs(c), S.sabs(d))), 1) for a, b, c, d in zip(her.reshape(-1), hei.reshape(-1), xr.reshape(-1), xi.reshape(-1))], dtype=object).reshape(shape)
    N.noise_algebra(ctx, chan.forward, (x,), {}, y, (fr, fi), noise, target=target, snr_lin=snr_lin, signal_power=N.mean_abs2(fr, fi), xscale=sc, prefix=N.recorded_values(fading))


def _forward_ln(ctx, cfg):
    return forward(ctx, cfg)


obligation("C13.forward_lognormal", function=FF + "forward; " + FF + "_generate_fading_coefficients; " + FF + "_expand_coefficients; " + N.FU + ":snr_to_noise_power", configs=lambda tier: _fwd_cfgs(tier, ("lognormal",)), max_paths=64, timeout_ms=120000, crosscheck=2)(_forward_ln)


# ================================================================================================ noise stage for arbitrary supplied gains
def _csi_cfgs(tier):
    out = []
    for xk, shp in (("real", "2x2"), ("complex", "L3")) + ((("complex", "2x1x2x1"), ("real", "L4")) if tier == "thorough" else ()):
        for how, val in (("P", "sym"), ("snr", 3.0)) + ((("snr", -20.0), ("snr", 40.0), ("P", 1e-3), ("P", 1e3)) if tier == "thorough" else ()):
            out.append(Cfg("fading_csi", xk, shp, how, val))
    return out


@obligation("C13.noise_given_csi", function=FF + "forward; " + N.FU + ":snr_to_noise_power", configs=_csi_cfgs, max_paths=64, timeout_ms=120000)
def noise_given_csi(ctx, cfg):
    _, xk, shp, how, val = cfg
    shape = XSHAPES[shp]
    fs = flat_shape(shape)
    x = N.make_input(ctx, xk, shape)
    h = ctx.complexes("h", fs)
    with ctx.sym():
        chan, target, snr_lin = mk_channel(ctx, "rayleigh", 1, how, val)
    out = ctx.call(chan.forward, x, csi=h)
    ctx.ensure("returns", out.ok, note=repr(out.exc) if not out.ok else "")
    if not out.ok:
        return
    y = out.value
    ctx.ensure("shape_preserved", SP.shape_is(y, shape) and y.dtype.is_complex)
    ctx.ensure("only_noise_draws", len(ctx.rng_draws) == 2)
    xr, xi = PC(x)
    hr, hi = PC(h)
    fr, fi = cmul((hr.reshape(-1), hi.reshape(-1)), (xr.reshape(-1), xi.reshape(-1)))
    fr, fi = fr.reshape(shape), fi.reshape(shape)
    sc = np.array([S.add(S.mul(S.add(S.sabs(a), S.sabs(b)), S.add(S.sabs(c), S.sabs(d))), 1) for a, b, c, d in zip(hr.reshape(-1), hi.reshape(-1), xr.reshape(-1), xi.reshape(-1))], dtype=object).reshape(shape)
    N.noise_algebra(ctx, chan.forward, (x,), dict(csi=h), y, (fr, fi), list(ctx.rng_draws), target=target, snr_lin=snr_lin, signal_power=N.mean_abs2(fr, fi), xscale=sc)


# ================================================================================================ constructors (ground)
def _ctor_cfgs(tier):
    return [Cfg("ctor", "rayleigh"), Cfg("ctor", "rician"), Cfg("ctor", "lognormal")]


@obligation("C13.constructors", function=FA + ":RayleighFadingChannel.__init__; " + FA + ":RicianFadingChannel.__init__; " + FA + ":LogNormalFadingChannel.__init__; " + FF + "__init__", configs=_ctor_cfgs, kind="ground", engine="ground")
def constructors(cfg):
    from kaira.channels import analog as A

    which = cfg[1]

    def raises(f, exc=ValueError):
        try:
            f()
        except exc:
            return True
        except Exception:
            return False
        return False

    def attrs(c):
        return dict(fading_type=c.fading_type, coherence_time=c.coherence_time, k_factor=c.k_factor, avg_noise_power=c.avg_noise_power, snr_db=c.snr_db, shadow_sigma_db=c.shadow_sigma_db)

    if which == "rayleigh":
        c = A.RayleighFadingChannel(coherence_time=3, avg_noise_power=0.25)
        yield "forwards_P", attrs(c) == dict(fading_type="rayleigh", coherence_time=3, k_factor=None, avg_noise_power=0.25, snr_db=None, shadow_sigma_db=None), attrs(c)
        c = A.RayleighFadingChannel(coherence_time=5, snr_db=7.0)
        yield "forwards_snr", attrs(c) == dict(fading_type="rayleigh", coherence_time=5, k_factor=None, avg_noise_power=None, snr_db=7.0, shadow_sigma_db=None), attrs(c)
        c = A.RayleighFadingChannel(snr_db=1.0)
        yield "default_coherence_time_1", c.coherence_time == 1, c.coherence_time
        yield "requires_noise_parameter", raises(lambda: A.RayleighFadingChannel(coherence_time=2)), "no avg_noise_power and no snr_db must be rejected"
    elif which == "rician":
        c = A.RicianFadingChannel(k_factor=3.5, coherence_time=4, avg_noise_power=0.125)
        yield "forwards_P", attrs(c) == dict(fading_type="rician", coherence_time=4, k_factor=3.5, avg_noise_power=0.125, snr_db=None, shadow_sigma_db=None), attrs(c)
        c = A.RicianFadingChannel(k_factor=0.0, snr_db=-3.0)
        yield "forwards_snr_K0", attrs(c) == dict(fading_type="rician", coherence_time=1, k_factor=0.0, avg_noise_power=None, snr_db=-3.0, shadow_sigma_db=None), attrs(c)
        yield "rejects_negative_K", raises(lambda: A.RicianFadingChannel(k_factor=-0.5, snr_db=1.0)), "k_factor < 0 must be rejected"
        yield "requires_noise_parameter", raises(lambda: A.RicianFadingChannel(k_factor=1.0)), "no noise parameter must be rejected"
        yield "base_requires_K", raises(lambda: A.FlatFadingChannel("rician", 1, snr_db=1.0)), "rician without k_factor must be rejected"
    else:
        c = A.LogNormalFadingChannel(shadow_sigma_db=6.0, coherence_time=9, avg_noise_power=2.0)
        yield "forwards_P", attrs(c) == dict(fading_type="lognormal", coherence_time=9, k_factor=None, avg_noise_power=2.0, snr_db=None, shadow_sigma_db=6.0), attrs(c)
        c = A.LogNormalFadingChannel(snr_db=12.0)
        yield "forwards_snr_defaults", attrs(c) == dict(fading_type="lognormal", coherence_time=100, k_factor=None, avg_noise_power=None, snr_db=12.0, shadow_sigma_db=4.0), attrs(c)
        yield "rejects_negative_sigma", raises(lambda: A.LogNormalFadingChannel(shadow_sigma_db=-1.0, snr_db=1.0)), "shadow_sigma_db < 0 must be rejected"
        yield "base_requires_sigma", raises(lambda: A.FlatFadingChannel("lognormal", 1, snr_db=1.0)), "lognormal without shadow_sigma_db must be rejected"
        yield "rejects_unknown_type", raises(lambda: A.FlatFadingChannel("nakagami", 1, snr_db=1.0)), "unknown fading type must be rejected"


# ================================================================================================ long inputs (closed, same-seed relation)
@obligation("C13.long_inputs_reference_power", function=FF + "forward", configs=lambda tier: [Cfg("long", shp) for shp in ("1x6000", "2x6000", "2x2x64x64")], kind="ground", engine="ground")
def long_inputs_reference_power(cfg):
    """SNR mode, inputs longer than any internal window: the noise scale is set by the mean power of the WHOLE faded signal.
    Deterministic same-seed relation: x (weak first 4500 samples, strong rest) and its time reversal have the same mean |h.x|^2
    under a constant supplied gain, so with the same RNG seed the added noise n = y - h.x must be the same tensor; and scaling x by
    10 must scale n by 10."""
    from kaira.channels.analog import FlatFadingChannel

    shape = tuple(int(v) for v in cfg[1].split("x"))
    B = shape[0]
    L = int(np.prod(shape[1:]))
    prof = torch.cat([torch.full((4500,), 0.1), torch.full((L - 4500,), 3.0)])
    x = (prof.unsqueeze(0).repeat(B, 1) * torch.tensor([1.0, -1.0]).repeat(L // 2 + 1)[:L]).reshape(shape).to(torch.complex64)
    xr = torch.flip(x.reshape(B, L), dims=[1]).reshape(shape)
    h = torch.full((B, L), 0.8 + 0.6j, dtype=torch.complex64)
    bad = []

    def noise(inp, seed=11):
        torch.manual_seed(seed)
        ch = FlatFadingChannel("rayleigh", 4, snr_db=10.0)
        y = ch(inp, csi=h)  # supplied gains are given per flattened item (B, L), as in C13.supplied_csi_noise
        return (y.reshape(B, L) - h * inp.reshape(B, L))

    try:
        n1, n2, n3 = noise(x), noise(xr), noise(10 * x)
        p_sig = float((h * x.reshape(B, L)).abs().pow(2).mean())
        p_n = float(n1.abs().pow(2).mean())
        if not torch.allclose(n1, n2, rtol=1e-4, atol=1e-6):
            bad.append(f"noise for x and for its time reversal differ (same seed, same total power): max |n1-n2| = {float((n1 - n2).abs().max()):.4g}, |n1| rms {float(n1.abs().pow(2).mean().sqrt()):.4g}")
        if not torch.allclose(10 * n1, n3, rtol=1e-4, atol=1e-5):
            bad.append("noise does not scale with the signal amplitude")
        if not (0.8 < p_n / (p_sig / 10.0) < 1.25):
            bad.append(f"noise power {p_n:.5g} vs mean|h.x|^2 / snr = {p_sig / 10.0:.5g}")
    except Exception as e:
        bad.append(f"raised {e!r}")
    yield "noise_scale_follows_the_power_of_the_whole_signal", not bad, "; ".join(bad) or f"shape {shape}: same-seed noise identical for x and reversed x, scales with amplitude, power within 25% of mean|h.x|^2/snr ({L * B} samples)"
